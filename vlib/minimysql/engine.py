"""Engine (= one MySQL server), sessions, transactions, row-level operations, DDL."""
from __future__ import annotations

import time

from . import values as V
from .compiler import Ctx
from .errors import NotSupported, SqlCondition, cond
from .executor import ExecutorMixin
from .planner import Planner
from .storage import FK, NEVER, NOKEY, NOW, Column, Row, Table, lookup_norm


class ResultSet:
    __slots__ = ('colnames', 'coltables', 'rows')

    def __init__(self, colnames, coltables, rows):
        self.colnames = colnames
        self.coltables = coltables
        self.rows = rows


def dict_rows(rs):
    """Rows of a ResultSet as dicts, keyed like pymysql's DictCursor (a repeated column name becomes
    ``table.column``)."""
    fields = []
    for n, t in zip(rs.colnames, rs.coltables):
        if n in fields:
            n = (t or '') + '.' + n
        fields.append(n)
    return [dict(zip(fields, row)) for row in rs.rows]


class Result:
    __slots__ = ('sets', 'affected', 'lastrowid')

    def __init__(self, sets=None, affected=0, lastrowid=0):
        self.sets = sets or []
        self.affected = affected
        self.lastrowid = lastrowid


class Routine:
    __slots__ = ('kind', 'name', 'params', 'returns', 'body', 'ctx', 'source')


class Trigger:
    __slots__ = ('name', 'time', 'event', 'table', 'body', 'ctx', 'source')


class Gate:
    """Serialises transactions: held from START TRANSACTION (or for one autocommit statement) to COMMIT/ROLLBACK."""

    def __init__(self):
        self.owner = None
        self.waiters = []

    def try_acquire(self, sess) -> bool:
        if self.owner is None or self.owner is sess:
            self.owner = sess
            return True
        return False

    async def acquire(self, sess):
        import asyncio
        while not self.try_acquire(sess):
            fut = asyncio.get_running_loop().create_future()
            self.waiters.append(fut)
            try:
                await fut
            except BaseException:
                # cancelled after release() had already chosen this waiter: hand the wake-up on, or everybody else sleeps for ever
                if fut in self.waiters:
                    self.waiters.remove(fut)
                if fut.done() and not fut.cancelled():
                    self._wake()
                raise
            finally:
                if fut in self.waiters:
                    self.waiters.remove(fut)

    def _wake(self):
        if self.owner is None:
            for fut in self.waiters:
                if not fut.done():
                    fut.set_result(None)
                    break

    def release(self, sess):
        if self.owner is sess:
            self.owner = None
            self._wake()


class Session:
    _next_id = 1

    def __init__(self, engine, autocommit=True):
        self.engine = engine
        self.id = Session._next_id
        Session._next_id += 1
        self.autocommit = autocommit
        self.in_txn = False
        self.read_only = False
        self.undo: list = []
        self.user_vars: dict = {}
        self.params = ()
        self.last_insert_id = 0
        self.row_count = 0
        self.stmt_insert_id = 0
        self.result_sets: list = []
        self.warnings: list = []
        self.depth = 0           # routine nesting
        self.in_fn_or_trigger = 0
        self.closed = False
        self.sysvars = {}

    # convenience for tests / harnesses (synchronous, bypasses the gate unless it is held by someone else)
    def execute(self, sql, args=None):
        return self.engine.execute(self, sql, args)

    def query(self, sql, args=None):
        """-> list of dict rows of the first result set."""
        r = self.engine.execute(self, sql, args)
        if not r.sets:
            return []
        return dict_rows(r.sets[0])


class Engine(ExecutorMixin):
    def __init__(self):
        self.tables: dict[str, Table] = {}
        self.procedures: dict[str, Routine] = {}
        self.functions: dict[str, Routine] = {}
        self.triggers: dict[str, dict] = {}      # table lower -> {(time, event): [Trigger]}
        self.trigger_names: dict[str, Trigger] = {}
        self.schema_version = 0
        self._plans: dict = {}
        self.planner = Planner(self)
        self.top_ctx = Ctx(self)
        self.gate = Gate()
        self.rand_source = lambda: 0.5
        self.clock = time.time
        self.on_transaction_start = None
        self.fault_hook = None
        self.multi_update_on_the_fly = False
        self.insert_select_same_table_buffered = True
        self.sessions: list = []
        self.stats = {'statements': 0}
        self.ignored_settings: list = []

    # ------------------------------------------------------------------ sessions
    def connect(self, autocommit=True) -> Session:
        s = Session(self, autocommit)
        self.sessions.append(s)
        return s

    def close_session(self, sess):
        if sess.closed:
            return
        if sess.in_txn or sess.undo:
            self.rollback(sess)
        self.gate.release(sess)
        sess.closed = True
        if sess in self.sessions:
            self.sessions.remove(sess)

    # ------------------------------------------------------------------ catalog
    def get_table(self, name) -> Table:
        t = self.tables.get(name.lower())
        if t is None:
            raise cond(1146, f"Table '{name}' doesn't exist")
        return t

    def schema_changed(self):
        self.schema_version += 1
        self._plans.clear()
        for t in self.tables.values():
            t.children = []
        for t in self.tables.values():
            for fk in t.fks:
                p = self.tables.get(fk.rtable.lower())
                if p is not None:
                    p.children.append((t, fk))

    # ------------------------------------------------------------------ transactions
    def begin(self, sess, read_only=False):
        if sess.in_fn_or_trigger:
            raise cond(1422, 'Explicit or implicit commit is not allowed in stored function or trigger.')
        if sess.in_txn or sess.undo:
            self.commit(sess)
        sess.in_txn = True
        sess.read_only = read_only

    def commit(self, sess):
        if sess.in_fn_or_trigger:
            raise cond(1422, 'Explicit or implicit commit is not allowed in stored function or trigger.')
        sess.undo.clear()
        sess.in_txn = False
        sess.read_only = False

    def rollback(self, sess):
        if sess.in_fn_or_trigger:
            raise cond(1422, 'Explicit or implicit commit is not allowed in stored function or trigger.')
        self.undo_to(sess, 0)
        sess.in_txn = False
        sess.read_only = False

    def undo_to(self, sess, mark):
        u = sess.undo
        while len(u) > mark:
            e = u.pop()
            op = e[0]
            if op == 'i':
                e[1].raw_delete(e[2])
            elif op == 'd':
                e[1].raw_insert(e[2])
            else:
                e[1].raw_update(e[2], e[3])

    # ------------------------------------------------------------------ row operations
    def _fire(self, sess, table, time_, event, old, new):
        trs = self.triggers.get(table.name.lower())
        if not trs:
            return
        lst = trs.get((time_, event))
        if lst:
            for tr in lst:
                self.run_trigger(sess, tr, old, new)

    def has_triggers(self, table, time_, event):
        trs = self.triggers.get(table.name.lower())
        return bool(trs and trs.get((time_, event)))

    def build_row(self, table: Table, given: dict) -> dict:
        """given: canonical col -> already evaluated (uncoerced) value.  Applies coercion and defaults."""
        new = {}
        for col in table.cols:
            name = col.name
            if name in given:
                v = given[name]
                if v is not None:
                    v = V.coerce(v, col.ty, 'column', name)
                elif col.notnull and not col.auto and col.ty.base == 'datetime' and col.has_default \
                        and col.default is NOW:
                    v = self._now()
                new[name] = v
            elif col.has_default:
                d = col.default
                new[name] = self._now() if d is NOW else d
            elif col.auto or not col.notnull:
                new[name] = None
            else:
                raise cond(1364, f"Field '{name}' doesn't have a default value")
        return new

    def _now(self):
        import datetime
        return datetime.datetime.fromtimestamp(self.clock(), datetime.timezone.utc).replace(tzinfo=None, microsecond=0)

    def _index_key(self, table, cols, values):
        """normalised key for `cols` from dict-like `values`; None when any component is NULL."""
        key = []
        for c in cols:
            v = values[c]
            if v is None:
                return None
            col = table.colmap[c.lower()]
            if col.strlike and not col.cs:
                v = V.ci_key(v)
            key.append(v)
        return key[0] if len(key) == 1 else tuple(key)

    def find_conflict(self, table, new, exclude=None):
        """-> (key name, conflicting row) or None"""
        for kname, cols in table.unique_keys():
            key = self._index_key(table, cols, new)
            if key is None:
                continue
            b = table.index_on(cols).map.get(key)
            if b:
                for r in b.values():
                    if r is not exclude:
                        return kname, cols, r
        return None

    def _dup_error(self, table, kname, cols, new):
        ent = '-'.join(V.to_str(new[c]) for c in cols)
        return cond(1062, f"Duplicate entry '{ent}' for key '{table.name}.{kname}'")

    def check_fks(self, table, new, only_cols=None):
        for fk in table.fks:
            if only_cols is not None and not any(c in only_cols for c in fk.cols):
                continue
            parent = self.tables.get(fk.rtable.lower())
            if parent is None:
                raise cond(1452, f"Cannot add or update a child row: a foreign key constraint fails "
                                 f"(`{table.name}`, referenced table `{fk.rtable}` does not exist)")
            key = []
            for c, rc in zip(fk.cols, fk.rcols):
                v = new[c]
                if v is None:
                    key = None
                    break
                nv = lookup_norm(parent.colmap[rc.lower()], v)
                if nv is NEVER or nv is NOKEY:
                    nv = ('\0nokey', v)
                key.append(nv)
            if key is None:
                continue
            rcols = tuple(parent.canon(c) for c in fk.rcols)
            rows = parent.lookup(rcols, key[0] if len(key) == 1 else tuple(key))
            if not rows:
                raise cond(1452, f"Cannot add or update a child row: a foreign key constraint fails "
                                 f"(`{table.name}`, CONSTRAINT FOREIGN KEY (`{'`, `'.join(fk.cols)}`) REFERENCES "
                                 f"`{fk.rtable}` (`{'`, `'.join(fk.rcols)}`))")

    def insert_row(self, sess, table: Table, given: dict, odku=None, ignore=False):
        """Insert one row.  `odku(conflict_row, proposed_row) -> new dict` computes ON DUPLICATE KEY UPDATE values.
        Returns affected-rows contribution (1 insert / 2 changed update / 0)."""
        new = self.build_row(table, given)
        if self.has_triggers(table, 'before', 'insert'):
            self._fire(sess, table, 'before', 'insert', None, new)
        auto = table.auto_col
        generated = None
        # NOT NULL is checked after BEFORE triggers and before the storage engine allocates an AUTO_INCREMENT
        # value (so a 1048 does not burn an id, a duplicate key does).
        for col in table.cols:
            if col.notnull and new[col.name] is None and col.name != auto:
                raise cond(1048, f"Column '{col.name}' cannot be null")
        if auto is not None:
            v = new[auto]
            if v is None or v == 0:
                generated = table.auto_next
                new[auto] = generated
                table.auto_next = generated + 1
            elif v >= table.auto_next:
                table.auto_next = v + 1
        conflict = self.find_conflict(table, new)
        if conflict is not None:
            kname, cols, crow = conflict
            if odku is not None:
                upd = odku(crow, new)
                changed = self.update_row(sess, table, crow, upd)
                if auto is not None and changed:
                    sess.stmt_insert_id = sess.stmt_insert_id or 0
                return 2 if changed else 0
            if ignore:
                sess.warnings.append((1062, 'duplicate ignored'))
                return 0
            raise self._dup_error(table, kname, cols, new)
        if table.fks:
            try:
                self.check_fks(table, new)
            except SqlCondition:
                if ignore:
                    return 0
                raise
        row = table.new_row(new)
        table.raw_insert(row)
        sess.undo.append(('i', table, row))
        if generated is not None and not sess.stmt_insert_id:
            sess.stmt_insert_id = generated
        if self.has_triggers(table, 'after', 'insert'):
            self._fire(sess, table, 'after', 'insert', None, row)
        return 1

    def update_row(self, sess, table: Table, row: Row, new: dict) -> bool:
        """`new` is a full dict of proposed (coerced) column values.  Fires triggers; returns True if changed."""
        before = self.has_triggers(table, 'before', 'update')
        after = self.has_triggers(table, 'after', 'update')
        if before:
            self._fire(sess, table, 'before', 'update', row, new)
        changes = {}
        for c, v in new.items():
            ov = row[c]
            if v != ov or type(v) is not type(ov):
                if v is None and ov is None:
                    continue
                changes[c] = v
        if changes:
            for col in table.cols:
                if col.on_update_now and col.name not in changes:
                    changes[col.name] = self._now()
            for c, v in changes.items():
                if v is None and table.colmap[c.lower()].notnull:
                    raise cond(1048, f"Column '{c}' cannot be null")
            # unique keys
            for kname, cols in table.unique_keys():
                if any(c in changes for c in cols):
                    merged = dict(row)
                    merged.update(changes)
                    key = self._index_key(table, cols, merged)
                    if key is not None:
                        b = table.index_on(cols).map.get(key)
                        if b and any(r is not row for r in b.values()):
                            raise self._dup_error(table, kname, cols, merged)
            if table.fks:
                merged = dict(row)
                merged.update(changes)
                self.check_fks(table, merged, only_cols=changes)
            for child, fk in table.children:
                if any(c in changes for c in fk.rcols):
                    if self._child_rows(table, row, child, fk):
                        raise cond(1451, 'Cannot delete or update a parent row: a foreign key constraint fails '
                                         f'(`{child.name}`)')
            oldvals = {c: row[c] for c in changes}
            oldcopy = dict(row) if after else None
            table.raw_update(row, changes)
            sess.undo.append(('u', table, row, oldvals))
            if after:
                self._fire(sess, table, 'after', 'update', oldcopy, row)
            return True
        if after:
            self._fire(sess, table, 'after', 'update', row, row)
        return False

    def _child_rows(self, parent, prow, child, fk):
        key = []
        for c, rc in zip(fk.cols, fk.rcols):
            v = prow[parent.canon(rc)]
            nv = lookup_norm(child.colmap[c.lower()], v)
            if nv is NEVER:
                return ()
            if nv is NOKEY:
                return [r for r in child.scan()
                        if all(V.compare(r[a], prow[parent.canon(b)]) == 0 for a, b in zip(fk.cols, fk.rcols))]
            key.append(nv)
        cols = tuple(child.canon(c) for c in fk.cols)
        return child.lookup(cols, key[0] if len(key) == 1 else tuple(key))

    def delete_row(self, sess, table: Table, row: Row, fire=True):
        if row.rid not in table.rows:
            return False
        if fire and self.has_triggers(table, 'before', 'delete'):
            self._fire(sess, table, 'before', 'delete', row, None)
        for child, fk in table.children:
            rows = self._child_rows(table, row, child, fk)
            if not rows:
                continue
            if child is table and all(r is row for r in rows):
                continue
            if fk.on_delete == 'cascade':
                for r in list(rows):
                    if r is not row:
                        self.delete_row(sess, child, r, fire=False)   # cascaded deletes do not activate triggers
            else:
                raise cond(1451, 'Cannot delete or update a parent row: a foreign key constraint fails '
                                 f'(`{child.name}`, CONSTRAINT FOREIGN KEY (`{"`, `".join(fk.cols)}`) REFERENCES '
                                 f'`{table.name}`)')
        table.raw_delete(row)
        sess.undo.append(('d', table, row))
        if fire and self.has_triggers(table, 'after', 'delete'):
            self._fire(sess, table, 'after', 'delete', row, None)
        return True

    # ------------------------------------------------------------------ DDL
    def _mk_column(self, cd) -> Column:
        default = None
        if cd.has_default:
            d = cd.default
            if d.k == 'func' and d.name == 'CURRENT_TIMESTAMP':
                default = NOW
            else:
                f = self.planner.xc.compile(d, self._empty_scope())
                from .compiler import Env
                v = f(Env(0, None, None, None))
                default = V.coerce(v, cd.ty, 'column', cd.name) if v is not None else None
        col = Column(cd.name, cd.ty, cd.notnull, default, cd.has_default, cd.auto, cd.on_update_now)
        if cd.ty.base == 'datetime' and cd.on_update_now:
            col.on_update_now = True
        return col

    def _empty_scope(self):
        from .compiler import Scope
        return Scope(self.top_ctx)

    def ddl_create_table(self, node):
        lname = node.name.lower()
        if lname in self.tables:
            if node.if_not_exists:
                return
            raise cond(1050, f"Table '{node.name}' already exists")
        t = Table(node.name)
        for cd in node.cols:
            t.add_column(self._mk_column(cd))
        for c in node.constraints:
            self._add_constraint(t, c)
        self.tables[lname] = t
        self.schema_changed()

    def _add_constraint(self, t: Table, c):
        if c.k == 'pk':
            if t.pk:
                raise cond(1068, 'Multiple primary key defined')
            t.set_pk(c.cols)
        elif c.k == 'unique':
            cols = tuple(t.canon(x) for x in c.cols)
            t.uniques.append((c.name or cols[0], cols))
            t._schema_changed()
        elif c.k == 'index':
            cols = tuple(t.canon(x) for x in c.cols)
            t.index_defs.append((c.name or cols[0], cols))
            t._schema_changed()
        elif c.k == 'fk':
            cols = tuple(t.canon(x) for x in c.cols)
            name = c.name or f'{t.name}_ibfk_{len(t.fks) + 1}'
            t.fks.append(FK(name, cols, c.rtable, c.rcols, c.on_delete))
            t._schema_changed()
        else:
            raise NotSupported(f'constraint {c.k}')

    def ddl_create_index(self, node):
        t = self.get_table(node.table)
        cols = tuple(t.canon(x) for x in node.cols)
        if node.unique:
            self._verify_unique(t, cols, node.name)
            t.uniques.append((node.name, cols))
        else:
            t.index_defs.append((node.name, cols))
        t._schema_changed()
        self.schema_changed()

    def _verify_unique(self, t, cols, name):
        seen = set()
        for r in t.rows.values():
            k = self._index_key(t, cols, r)
            if k is None:
                continue
            if k in seen:
                raise cond(1062, f"Duplicate entry for key '{t.name}.{name}'")
            seen.add(k)

    def ddl_drop(self, node):
        for name in node.names:
            l = name.lower()
            if node.what == 'table':
                t = self.tables.pop(l, None)
                if t is None:
                    if not node.if_exists:
                        raise cond(1051, f"Unknown table '{name}'")
                    continue
                for tr in list(self.trigger_names.values()):
                    if tr.table.lower() == l:
                        self._drop_trigger(tr.name)
            elif node.what == 'trigger':
                if l not in self.trigger_names:
                    if not node.if_exists:
                        raise cond(1360, 'Trigger does not exist')
                    continue
                self._drop_trigger(name)
            elif node.what == 'procedure':
                if self.procedures.pop(l, None) is None and not node.if_exists:
                    raise cond(1305, f'PROCEDURE {name} does not exist')
            elif node.what == 'function':
                if self.functions.pop(l, None) is None and not node.if_exists:
                    raise cond(1305, f'FUNCTION {name} does not exist')
        self.schema_changed()

    def _drop_trigger(self, name):
        tr = self.trigger_names.pop(name.lower())
        lst = self.triggers[tr.table.lower()][(tr.time, tr.event)]
        lst.remove(tr)

    def ddl_rename(self, pairs):
        for a, b in pairs:
            t = self.tables.pop(a.lower(), None)
            if t is None:
                raise cond(1146, f"Table '{a}' doesn't exist")
            if b.lower() in self.tables:
                raise cond(1050, f"Table '{b}' already exists")
            t.name = b
            self.tables[b.lower()] = t
            trs = self.triggers.pop(a.lower(), None)
            if trs:
                self.triggers[b.lower()] = trs
                for lst in trs.values():
                    for tr in lst:
                        tr.table = b
            for o in self.tables.values():
                for fk in o.fks:
                    if fk.rtable.lower() == a.lower():
                        fk.rtable = b
        self.schema_changed()

    def ddl_alter(self, node):
        t = self.get_table(node.table)
        for a in node.actions:
            k = a.k
            if k == 'add_columns':
                pos = None
                if a.first:
                    pos = 0
                elif a.after:
                    pos = t.colnames.index(t.canon(a.after)) + 1
                for cd in a.cols:
                    col = self._mk_column(cd)
                    t.add_column(col, pos)
                    if pos is not None:
                        pos += 1
                    fill = None
                    if col.has_default:
                        fill = self._now() if col.default is NOW else col.default
                    elif col.notnull:
                        fill = {'int': 0, 'double': 0.0, 'char': '', 'text': '', 'blob': b''}.get(col.ty.base)
                        if col.ty.base == 'enum':
                            fill = col.ty.enum[0]
                    if col.auto:
                        for r in t.scan():
                            r[col.name] = t.auto_next
                            t.auto_next += 1
                    else:
                        for r in t.rows.values():
                            r[col.name] = fill
                for c in a.constraints:
                    self._add_constraint(t, c)
            elif k == 'drop_column':
                name = t.canon(a.name)
                col = t.colmap.pop(name.lower())
                t.cols.remove(col)
                t.colnames = [c.name for c in t.cols]
                if t.auto_col == name:
                    t.auto_col = None
                for r in t.rows.values():
                    r.pop(name, None)
                if t.pk and name in t.pk:
                    t.pk = tuple(c for c in t.pk if c != name) or None
                t.uniques = [(n, tuple(c for c in cs if c != name)) for n, cs in t.uniques]
                t.uniques = [(n, cs) for n, cs in t.uniques if cs]
                t.index_defs = [(n, tuple(c for c in cs if c != name)) for n, cs in t.index_defs]
                t.index_defs = [(n, cs) for n, cs in t.index_defs if cs]
                t._schema_changed()
            elif k == 'modify_column':
                old = t.canon(a.old)
                oc = t.colmap[old.lower()]
                col = self._mk_column(a.col)
                idx = t.cols.index(oc)
                t.cols[idx] = col
                del t.colmap[old.lower()]
                t.colmap[col.name.lower()] = col
                t.colnames = [c.name for c in t.cols]
                if col.auto:
                    t.auto_col = col.name
                elif t.auto_col == old:
                    t.auto_col = None
                ren = col.name != old
                for r in t.rows.values():
                    v = r.pop(old) if ren else r[old]
                    r[col.name] = V.coerce(v, col.ty, 'column', col.name) if v is not None else v
                if ren:
                    def rn(cs):
                        return tuple(col.name if c == old else c for c in cs)
                    if t.pk:
                        t.pk = rn(t.pk)
                    t.uniques = [(n, rn(cs)) for n, cs in t.uniques]
                    t.index_defs = [(n, rn(cs)) for n, cs in t.index_defs]
                    for fk in t.fks:
                        fk.cols = rn(fk.cols)
                if t.pk and col.name in t.pk:
                    col.notnull = True
                for c in a.constraints:
                    self._add_constraint(t, c)
                t._schema_changed()
            elif k == 'rename_column':
                old = t.canon(a.old)
                oc = t.colmap.pop(old.lower())
                oc.name = a.new
                t.colmap[a.new.lower()] = oc
                t.colnames = [c.name for c in t.cols]
                for r in t.rows.values():
                    r[a.new] = r.pop(old)

                def rn(cs):
                    return tuple(a.new if c == old else c for c in cs)
                if t.pk:
                    t.pk = rn(t.pk)
                t.uniques = [(n, rn(cs)) for n, cs in t.uniques]
                t.index_defs = [(n, rn(cs)) for n, cs in t.index_defs]
                for fk in t.fks:
                    fk.cols = rn(fk.cols)
                if t.auto_col == old:
                    t.auto_col = a.new
                t._schema_changed()
            elif k == 'drop_pk':
                t.pk = None
                t._schema_changed()
            elif k == 'add_pk':
                if t.pk:
                    raise cond(1068, 'Multiple primary key defined')
                cols = tuple(t.canon(x) for x in a.cols)
                self._verify_unique(t, cols, 'PRIMARY')
                t.set_pk(cols)
            elif k == 'add_unique':
                cols = tuple(t.canon(x) for x in a.cols)
                self._verify_unique(t, cols, a.name or cols[0])
                t.uniques.append((a.name or cols[0], cols))
                t._schema_changed()
            elif k == 'add_index':
                cols = tuple(t.canon(x) for x in a.cols)
                t.index_defs.append((a.name or cols[0], cols))
                t._schema_changed()
            elif k == 'drop_index':
                n0 = len(t.uniques) + len(t.index_defs)
                t.uniques = [(n, cs) for n, cs in t.uniques if (n or '').lower() != a.name.lower()]
                t.index_defs = [(n, cs) for n, cs in t.index_defs if (n or '').lower() != a.name.lower()]
                if len(t.uniques) + len(t.index_defs) == n0:
                    # indexes implicitly created for foreign keys / inline UNIQUE are not tracked by name
                    self.ignored_settings.append(f'DROP INDEX {a.name} ON {t.name}: no such tracked index')
                t._schema_changed()
            elif k == 'rename_index':
                t.uniques = [(a.new if (n or '').lower() == a.old.lower() else n, cs) for n, cs in t.uniques]
                t.index_defs = [(a.new if (n or '').lower() == a.old.lower() else n, cs) for n, cs in t.index_defs]
            elif k == 'add_fk':
                self._add_constraint(t, a.fk)
            elif k == 'drop_fk':
                n0 = len(t.fks)
                t.fks = [fk for fk in t.fks if fk.name.lower() != a.name.lower()]
                if len(t.fks) == n0:
                    raise cond(1091, f"Can't DROP '{a.name}'; check that column/key exists")
                t._schema_changed()
            elif k == 'rename_table':
                self.ddl_rename([(t.name, a.new)])
            elif k == 'set_auto_increment':
                t.auto_next = max(t.auto_next, int(a.v))
            else:
                raise NotSupported(f'ALTER action {k}')
        self.schema_changed()

    def ddl_create_routine(self, node, source=None):
        r = Routine()
        r.kind = node.kind
        r.name = node.name
        r.params = node.params
        r.returns = node.returns
        r.body = node.body
        r.source = source
        r.ctx = None
        reg = self.procedures if node.kind == 'procedure' else self.functions
        if node.name.lower() in reg:
            raise cond(1304, f'{node.kind.upper()} {node.name} already exists')
        reg[node.name.lower()] = r
        self.schema_changed()

    def ddl_create_trigger(self, node, source=None):
        if node.name.lower() in self.trigger_names:
            raise cond(1359, 'Trigger already exists')
        self.get_table(node.table)
        tr = Trigger()
        tr.name = node.name
        tr.time = node.time
        tr.event = node.event
        tr.table = node.table
        tr.body = node.body
        tr.ctx = None
        tr.source = source
        self.trigger_names[node.name.lower()] = tr
        self.triggers.setdefault(node.table.lower(), {}).setdefault((node.time, node.event), []).append(tr)
        self.schema_changed()

    # ------------------------------------------------------------------ fork
    def fork(self) -> 'Engine':
        """Cheap copy of schema + data + routines into an independent engine (no sessions)."""
        e = Engine()
        e.rand_source = self.rand_source
        e.clock = self.clock
        for l, t in self.tables.items():
            n = Table(t.name)
            n.cols = [Column(c.name, c.ty, c.notnull, c.default, c.has_default, c.auto, c.on_update_now) for c in t.cols]
            n.colmap = {c.name.lower(): c for c in n.cols}
            n.colnames = list(t.colnames)
            n.pk = t.pk
            n.uniques = list(t.uniques)
            n.index_defs = list(t.index_defs)
            n.fks = [FK(f.name, f.cols, f.rtable, f.rcols, f.on_delete) for f in t.fks]
            n.auto_col = t.auto_col
            n.auto_next = t.auto_next
            n.next_rid = t.next_rid
            n._schema_changed()
            for r in t.rows.values():
                nr = Row(r)
                nr.rid = r.rid
                nr.sk = None
                n.rows[nr.rid] = nr
            e.tables[l] = n
        for l, r in self.procedures.items():
            e.procedures[l] = _copy_routine(r)
        for l, r in self.functions.items():
            e.functions[l] = _copy_routine(r)
        for tl, d in self.triggers.items():
            for key, lst in d.items():
                for tr in lst:
                    n = Trigger()
                    n.name, n.time, n.event, n.table, n.body, n.source = tr.name, tr.time, tr.event, tr.table, tr.body, tr.source
                    n.ctx = None
                    e.trigger_names[n.name.lower()] = n
                    e.triggers.setdefault(tl, {}).setdefault(key, []).append(n)
        e.schema_changed()
        return e


def _copy_routine(r):
    n = Routine()
    n.kind, n.name, n.params, n.returns, n.body, n.source = r.kind, r.name, r.params, r.returns, r.body, r.source
    n.ctx = None
    return n
