"""E5 jvmslice — run slices of the Scala engine on a JVM.

There is no Hail jar, no scalac/sbt for 2.12.  What exists on disk is a complete Scala 3.3.4 distribution
(compiler jars + scala-library 2.13 + parser-combinators) and commons-math3.  This module

  1. cuts *named* definitions (objects, classes, traits, and defs/vals/types inside objects or package
     objects) out of the REAL source files under $VERIF_REPO (default /repo), re-read on every run, with a
     scanner that understands line/nested block comments, string / triple-quoted / interpolated strings,
     char literals and () [] {} nesting;
  2. concatenates them after a small stub prelude supplied by the check, plus a `main` that speaks a line
     protocol (one request line on stdin -> one JSON reply line on stdout; a request line is a batch
     `op a b c;op a b c;...`, arguments are integer / double literals, `x:<hex>` = UTF-8 string);
  3. compiles with `java -cp <compiler jars> dotty.tools.dotc.Main -source:3.0-migration` (the main class and
     class path that bin/scalac + bin/common of the distribution use) into
     /verif/.cache/jvmslice/<sha256 of the full compilation unit>/classes; a cache hit skips compilation;
     concurrent workers compile into a private temp dir and publish with an atomic rename;
  4. keeps one JVM alive per `Jvm` object (one per shard).

Anything that goes wrong here (toolchain missing, definition not found, unbalanced cut, compile error,
JVM died, malformed reply) raises JvmSliceError, which the runner reports as exit code 2 (harness error) —
never as a VIOLATION.
"""
from __future__ import annotations

import glob
import hashlib
import json
import os
import re
import shutil
import subprocess
import tempfile
import time

VERIF = os.path.dirname(os.path.dirname(os.path.abspath(__file__)))
CACHE = os.path.join(VERIF, '.cache', 'jvmslice')
TOOLS = os.environ.get('VERIF_TOOLS', '/opt/veriftools')
SCALA_HOME_HINT = os.path.join(TOOLS, 'tlapm/lib/tlapm/backends/Isabelle/contrib/scala-3.3.4')
MATH3_HINT = os.path.join(TOOLS, 'tlapm/lib/tlapm/backends/Isabelle/contrib/solr-9.7.0-1/lib/commons-math3-3.6.1.jar')


class JvmSliceError(Exception):
    """Harness error of the Scala-slice engine (exit code 2, never a violation)."""


def repo_root() -> str:
    return os.environ.get('VERIF_REPO', '/repo')


# ----------------------------------------------------------------------------------------------------------
# toolchain discovery
# ----------------------------------------------------------------------------------------------------------

_toolchain = None


def _find_one(pattern_roots, name_glob):
    for root in pattern_roots:
        hits = sorted(glob.glob(os.path.join(root, name_glob)))
        if hits:
            return hits[0]
    return None


def toolchain() -> dict:
    """-> dict(java, compiler_cp, lib_cp, math3, pc).  Raises JvmSliceError when something is missing."""
    global _toolchain
    if _toolchain is not None:
        return _toolchain
    java = shutil.which('java')
    if java is None:
        raise JvmSliceError('no `java` on PATH')
    home = SCALA_HOME_HINT
    if not os.path.isdir(os.path.join(home, 'lib')):
        # search (slow path) for a scala3 compiler jar anywhere under the tools tree
        home = None
        for dirpath, _dirs, files in os.walk(TOOLS):
            if any(f.startswith('scala3-compiler_3-') and f.endswith('.jar') for f in files):
                home = os.path.dirname(dirpath)
                break
        if home is None:
            raise JvmSliceError(f'no Scala 3 distribution found under {TOOLS}')
    lib = os.path.join(home, 'lib')

    def need(pat):
        p = _find_one([lib], pat)
        if p is None:
            raise JvmSliceError(f'Scala distribution at {home} lacks {pat}')
        return p

    # the JVM class path bin/common builds in compilerJavaClasspathArgs (minus jline/REPL jars)
    scala_lib = need('scala-library-2.13*.jar')
    dotty_lib = need('scala3-library_3-*.jar')
    compiler_cp = [scala_lib, dotty_lib, need('scala-asm-*.jar'), need('compiler-interface-*.jar'),
                   need('scala3-interfaces-*.jar'), need('scala3-compiler_3-*.jar'), need('tasty-core_3-*.jar')]
    pc = _find_one([lib], 'scala-parser-combinators_3-*.jar')
    math3 = MATH3_HINT if os.path.exists(MATH3_HINT) else None
    if math3 is None:
        for dirpath, _dirs, files in os.walk(TOOLS):
            for f in files:
                if f.startswith('commons-math3-') and f.endswith('.jar'):
                    math3 = os.path.join(dirpath, f)
                    break
            if math3:
                break
    _toolchain = dict(java=java, home=home, compiler_cp=compiler_cp, scala_lib=scala_lib, dotty_lib=dotty_lib,
                      pc=pc, math3=math3)
    return _toolchain


# ----------------------------------------------------------------------------------------------------------
# Scala scanner: classify every character as code / non-code and track bracket depth
# ----------------------------------------------------------------------------------------------------------

_OPEN = '([{'
_CLOSE = ')]}'
_PAIR = {')': '(', ']': '[', '}': '{'}
_IDCH = set('abcdefghijklmnopqrstuvwxyzABCDEFGHIJKLMNOPQRSTUVWXYZ0123456789_$')


class Scan:
    """Result of scanning one Scala source text.

    code[i]   1 when text[i] is code (not inside a comment, string or char literal)
    depth[i]  bracket nesting depth *before* text[i] (only code brackets count)
    """

    def __init__(self, text: str, where: str = '<text>'):
        self.text = text
        self.where = where
        n = len(text)
        self.code = bytearray(n)
        self.depth = [0] * (n + 1)
        self._scan()

    def _err(self, i, msg):
        line = self.text.count('\n', 0, i) + 1
        raise JvmSliceError(f'{self.where}:{line}: scanner: {msg}')

    def _scan(self):
        t = self.text
        n = len(t)
        code = self.code
        depth = self.depth
        stack = []            # open brackets; the marker '${' is an interpolation hole opened inside a string
        modes = []            # string modes suspended while inside a ${ } hole: ('s'|'t', raw)
        i = 0
        d = 0

        def string_body(i, triple, interp):
            """Consume string content starting at i (after the opening quotes).  Returns (new_i, hole_opened)."""
            while i < n:
                c = t[i]
                if triple:
                    if t.startswith('"""', i):
                        i += 3
                        while i < n and t[i] == '"':
                            i += 1
                        return i, False
                else:
                    if c == '\\':
                        i += 2
                        continue
                    if c == '"':
                        return i + 1, False
                    if c == '\n':
                        self._err(i, 'newline inside a single-line string literal')
                if interp and c == '$':
                    if t.startswith('$$', i):
                        i += 2
                        continue
                    if t.startswith('${', i):
                        return i + 2, True
                i += 1
            self._err(n - 1, 'unterminated string literal')

        while i < n:
            depth[i] = d
            c = t[i]
            if c == '/' and t.startswith('//', i):
                j = t.find('\n', i)
                j = n if j < 0 else j
                for k in range(i, j):
                    depth[k] = d
                i = j
                continue
            if c == '/' and t.startswith('/*', i):
                lvl = 1
                j = i + 2
                while j < n and lvl:
                    if t.startswith('/*', j):
                        lvl += 1
                        j += 2
                    elif t.startswith('*/', j):
                        lvl -= 1
                        j += 2
                    else:
                        j += 1
                if lvl:
                    self._err(i, 'unterminated block comment')
                for k in range(i, j):
                    depth[k] = d
                i = j
                continue
            if c == '"':
                interp = i > 0 and t[i - 1] in _IDCH and code[i - 1] == 1
                triple = t.startswith('"""', i)
                j, hole = string_body(i + (3 if triple else 1), triple, interp)
                for k in range(i, j):
                    depth[k] = d
                if hole:
                    modes.append(triple)
                    stack.append('${')
                    d += 1
                i = j
                continue
            if c == "'":
                # char literal?  'x'  '\n'  'A'  '\''
                if i + 2 < n and t[i + 1] == '\\':
                    j = t.find("'", i + 3)
                    if j < 0 or j - i > 8:
                        self._err(i, 'malformed char literal')
                    for k in range(i, j + 1):
                        depth[k] = d
                    i = j + 1
                    continue
                if i + 2 < n and t[i + 2] == "'" and t[i + 1] != '\n':
                    depth[i + 1] = depth[i + 2] = d
                    i += 3
                    continue
                code[i] = 1
                i += 1
                continue
            if c == '`':
                j = t.find('`', i + 1)
                if j < 0:
                    self._err(i, 'unterminated backtick identifier')
                for k in range(i, j + 1):
                    code[k] = 1
                    depth[k] = d
                i = j + 1
                continue
            code[i] = 1
            if c in _OPEN:
                stack.append(c)
                d += 1
            elif c in _CLOSE:
                if not stack:
                    self._err(i, f'unmatched {c!r}')
                top = stack.pop()
                d -= 1
                if top == '${':
                    if c != '}':
                        self._err(i, 'mismatched bracket inside string interpolation')
                    code[i] = 0
                    triple = modes.pop()
                    j, hole = string_body(i + 1, triple, True)
                    for k in range(i, j):
                        depth[k] = d
                    if hole:
                        modes.append(triple)
                        stack.append('${')
                        d += 1
                    i = j
                    continue
                if top != _PAIR[c]:
                    self._err(i, f'mismatched {top!r} ... {c!r}')
            i += 1
        depth[n] = d
        if stack:
            self._err(n - 1, f'{len(stack)} unclosed bracket(s) at end of file')


_MODS = (r'(?:(?:private|protected)(?:\[[\w.]+\])?|final|sealed|implicit|override|abstract|lazy|case|inline|'
         r'@[\w.]+(?:\([^)]*\))?)')


def _name_regex(kind: str, name: str):
    if name[-1] in _IDCH:
        tail = r'(?![A-Za-z0-9_$])'
    else:
        tail = r'(?![=<>!+\-*/|&^%~?:#@\\])'
    kind_re = kind.replace(' ', r'\s+')
    return re.compile(r'^[ \t]*(?:' + _MODS + r'\s+)*' + kind_re + r'\s+' + re.escape(name) + tail)


class Source:
    """One repo file, scanned; supports cutting definitions by name."""

    def __init__(self, relpath: str):
        self.relpath = relpath
        self.path = os.path.join(repo_root(), relpath)
        try:
            with open(self.path, encoding='utf-8') as f:
                self.text = f.read()
        except OSError as e:
            raise JvmSliceError(f'cannot read {self.path}: {e}')
        self.scan = Scan(self.text, self.path)
        self.line_starts = [0]
        for m in re.finditer(r'\n', self.text):
            self.line_starts.append(m.end())
        if self.line_starts[-1] == len(self.text):
            self.line_starts.pop()

    # -- helpers ------------------------------------------------------------------------------------------
    def _line_end(self, li):
        return self.line_starts[li + 1] if li + 1 < len(self.line_starts) else len(self.text)

    def _first_nonblank(self, li):
        s = self.line_starts[li]
        e = self._line_end(li)
        j = s
        while j < e and self.text[j] in ' \t':
            j += 1
        if j >= e or self.text[j] in '\r\n':
            return None
        return j

    def _extent(self, li):
        """Definition starting at line li: extends to just before the next non-blank code line that is at the same
        bracket depth and not indented deeper (scalafmt layout), or the end of the enclosing bracket."""
        j0 = self._first_nonblank(li)
        d0 = self.scan.depth[j0]
        ind0 = j0 - self.line_starts[li]
        last = li
        k = li + 1
        while k < len(self.line_starts):
            j = self._first_nonblank(k)
            if j is None:
                k += 1
                continue
            d = self.scan.depth[j]
            if d < d0:
                break
            is_code = self.scan.code[j] == 1
            if d == d0 and is_code:
                ind = j - self.line_starts[k]
                if self.text[j] in _CLOSE:
                    break           # closes the container
                if ind <= ind0:
                    break
            elif d == d0 and not is_code and (j - self.line_starts[k]) <= ind0:
                # a comment at sibling indentation belongs to the next definition
                break
            last = k
            k += 1
        return li, last

    def find(self, kind: str, name: str, within=None):
        """All definitions `kind name` whose first token sits at the body depth of `within` (a (start_line,
        end_line) extent) or at file top level.  -> list of (start_line, end_line)."""
        rx = _name_regex(kind, name)
        if within is None:
            lo, hi, want = 0, len(self.line_starts) - 1, 0
        else:
            lo, hi = within
            j0 = self._first_nonblank(lo)
            want = self.scan.depth[j0] + 1
            lo += 1
        out = []
        li = lo
        while li <= hi:
            j = self._first_nonblank(li)
            if j is not None and self.scan.code[j] == 1 and self.scan.depth[j] == want:
                line = self.text[self.line_starts[li]:self._line_end(li)]
                if rx.match(line):
                    ext = self._extent(li)
                    out.append(ext)
                    li = ext[1] + 1
                    continue
            li += 1
        return out

    def lines(self, ext):
        return self.text[self.line_starts[ext[0]]:self._line_end(ext[1])]

    # -- public -------------------------------------------------------------------------------------------
    def resolve(self, path_spec: str):
        """'package object stats / def uniroot' -> list of extents (all overloads of the last element)."""
        parts = [p.strip() for p in path_spec.split('/')]
        within = None
        for idx, part in enumerate(parts):
            m = re.match(r'^((?:package object|case class|case object|object|class|trait|def|val|var|type))\s+(\S+)$',
                         part)
            if not m:
                raise JvmSliceError(f'bad definition spec {part!r} (want "<kind> <name>")')
            kind, name = m.group(1), m.group(2)
            exts = self.find(kind, name, within)
            if not exts:
                raise JvmSliceError(f'{self.path}: definition {part!r} not found'
                                    + (f' inside {" / ".join(parts[:idx])}' if idx else ' at top level'))
            if idx < len(parts) - 1:
                if len(exts) != 1:
                    raise JvmSliceError(f'{self.path}: container {part!r} is ambiguous ({len(exts)} matches)')
                within = exts[0]
            else:
                return exts
        return []

    def cut(self, path_spec: str) -> str:
        pieces = []
        for ext in self.resolve(path_spec):
            txt = self.lines(ext)
            _check_balanced(txt, f'{self.path}: {path_spec}')
            pieces.append(txt.rstrip('\n') + '\n')
        return '\n'.join(pieces)


def _check_balanced(txt, where):
    s = Scan(txt, where)     # raises on unbalanced / unterminated
    if s.depth[len(txt)] != 0:
        raise JvmSliceError(f'{where}: cut is not bracket-balanced')


# ----------------------------------------------------------------------------------------------------------
# Slice assembly
# ----------------------------------------------------------------------------------------------------------

RUNTIME = r'''
object SliceIO {
  def jstr(s: String): String = {
    val sb = new java.lang.StringBuilder("\"")
    var i = 0
    val t = if (s == null) "null" else s
    while (i < t.length) {
      val c = t.charAt(i)
      if (c == '"' || c == '\\') { sb.append('\\'); sb.append(c) }
      else if (c < ' ' || c > '~') sb.append(String.format("\\u%04x", Integer.valueOf(c.toInt)))
      else sb.append(c)
      i += 1
    }
    sb.append('"').toString
  }
  def unhex(s: String): String = {
    val h = if (s.startsWith("x:")) s.substring(2) else s
    val b = new Array[Byte](h.length / 2)
    var i = 0
    while (i < b.length) { b(i) = Integer.parseInt(h.substring(2 * i, 2 * i + 2), 16).toByte; i += 1 }
    new String(b, "UTF-8")
  }
  def d(x: Double): String = "\"" + java.lang.Double.toString(x) + "\""
  def ds(xs: Array[Double]): String = xs.map(d).mkString("[", ",", "]")
  def is(xs: Iterable[Int]): String = xs.mkString("[", ",", "]")
  def err(t: Throwable): String =
    "{\"err\":" + jstr(t.getClass.getName) + ",\"msg\":" + jstr(String.valueOf(t.getMessage)) + "}"
  def loop(handle: (String, Array[String]) => String): Unit = {
    val in = new java.io.BufferedReader(new java.io.InputStreamReader(System.in, "UTF-8"), 1 << 16)
    val out = new java.io.PrintStream(new java.io.FileOutputStream(java.io.FileDescriptor.out), false, "UTF-8")
    out.println("{\"ready\":true}"); out.flush()
    var line = in.readLine()
    while (line != null) {
      val sb = new java.lang.StringBuilder("[")
      var first = true
      for (req <- line.split(';') if req.nonEmpty) {
        val tok = req.trim.split(' ')
        if (!first) sb.append(',')
        first = false
        val r =
          try handle(tok(0), tok.drop(1))
          catch {
            case e: VirtualMachineError if !e.isInstanceOf[StackOverflowError] => throw e
            case t: Throwable => err(t)
          }
        sb.append(r)
      }
      sb.append(']')
      out.println(sb.toString); out.flush()
      line = in.readLine()
    }
  }
}
'''


class Slice:
    """Builder: prelude text + cut pieces + handler body -> compiled, cached, runnable."""

    def __init__(self, name: str, imports: str = ''):
        self.name = name
        self.parts = [imports.strip() + '\n'] if imports.strip() else []
        self._sources = {}
        self.cut_log = []        # (relpath, spec, n_overloads, n_lines) for evidence / debugging

    def _src(self, relpath) -> Source:
        if relpath not in self._sources:
            self._sources[relpath] = Source(relpath)
        return self._sources[relpath]

    def prelude(self, text: str):
        """Hand-written stub text (kept tiny; it is part of the trusted base)."""
        self.parts.append(text.strip('\n') + '\n')
        return self

    def cut(self, relpath: str, *specs: str):
        """Cut whole top-level (or nested, with 'a / b' paths) definitions verbatim."""
        src = self._src(relpath)
        for spec in specs:
            txt = src.cut(spec)
            self.cut_log.append((relpath, spec, len(src.resolve(spec)), txt.count('\n')))
            self.parts.append(f'// ---- cut from {relpath}: {spec}\n{txt}')
        return self

    def members(self, relpath: str, container: str, names, wrap: str):
        """Cut the named members of `container` and re-wrap them as `wrap { ... }`."""
        grp = dict(relpath=relpath, container=container, names=list(names), wrap=wrap)
        self._render_members(grp)          # fail early if a named member is missing
        self.parts.append(grp)
        return self

    def _render_members(self, grp) -> str:
        src = self._src(grp['relpath'])
        body = []
        for nm in grp['names']:
            spec = f"{grp['container']} / {nm}"
            txt = src.cut(spec)
            entry = (grp['relpath'], spec, len(src.resolve(spec)), txt.count('\n'))
            if entry not in self.cut_log:
                self.cut_log.append(entry)
            body.append(f"// ---- cut from {grp['relpath']}: {spec}\n{txt}")
        return f"{grp['wrap']} {{\n" + '\n'.join(body) + '}\n'

    def _pull_in(self, missing) -> bool:
        """The sliced members refer to sibling members that were not listed (a change to the repository added a helper val /
        def next to them): add every `missing` name that is a member of a container already sliced.  -> True if anything was added."""
        added = False
        for name in missing:
            for grp in [g for g in self.parts if isinstance(g, dict)]:
                src = self._src(grp['relpath'])
                for kind in ('val', 'lazy val', 'var', 'def', 'object', 'class', 'case class'):
                    spec = f'{kind} {name}'
                    if spec in grp['names']:
                        break
                    try:
                        src.cut(f"{grp['container']} / {spec}")
                    except JvmSliceError:
                        continue
                    grp['names'].insert(0, spec)
                    self.auto_added = getattr(self, 'auto_added', []) + [f"{grp['relpath']}: {grp['container']} / {spec}"]
                    added = True
                    break
        return added

    def handler(self, body: str):
        """Scala body of `def handle(op: String, a: Array[String]): String` (returns one JSON value)."""
        self._handler = body
        return self

    def text(self) -> str:
        if not hasattr(self, '_handler'):
            raise JvmSliceError('slice has no handler')
        main = ('object SliceMain {\n  import SliceIO._\n  def handle(op: String, a: Array[String]): String = {\n'
                + self._handler.strip('\n') + '\n  }\n  def main(args: Array[String]): Unit = SliceIO.loop(handle)\n}\n')
        parts = [self._render_members(x) if isinstance(x, dict) else x for x in self.parts]
        return '\n'.join(parts) + '\n' + RUNTIME + '\n' + main

    # -- compile ------------------------------------------------------------------------------------------
    def lib_classpath(self):
        tc = toolchain()
        cp = [tc['scala_lib'], tc['dotty_lib']]
        if tc['pc']:
            cp.append(tc['pc'])
        if tc['math3']:
            cp.append(tc['math3'])
        return cp

    def compile(self) -> str:
        """-> directory with class files (compiled now or taken from the cache).  Names the compiler cannot find are looked up among
        the members of the containers already sliced and pulled in (at most 6 rounds)."""
        import re as _re
        for _round in range(6):
            try:
                return self._compile_once()
            except JvmSliceError as e:
                missing = sorted(set(_re.findall(r'Not found: (?:type )?([A-Za-z_][A-Za-z0-9_]*)', str(e))))
                if not missing or not self._pull_in(missing):
                    raise
        return self._compile_once()

    def _compile_once(self) -> str:
        tc = toolchain()
        text = self.text()
        key = hashlib.sha256(('jvmslice-v1\n' + '\n'.join(os.path.basename(p) for p in self.lib_classpath())
                              + '\n' + text).encode()).hexdigest()
        final = os.path.join(CACHE, key)
        self.cache_key = key
        self.cache_hit = os.path.isfile(os.path.join(final, 'OK'))
        if self.cache_hit:
            return os.path.join(final, 'classes')
        os.makedirs(CACHE, exist_ok=True)
        # one compiler at a time per slice: the others block on the lock and then hit the cache
        lock = open(os.path.join(CACHE, key + '.lock'), 'w')
        try:
            try:
                import fcntl
                fcntl.flock(lock, fcntl.LOCK_EX)
            except (ImportError, OSError):
                pass                      # no locking available: compile-to-temp + atomic rename is still safe
            if os.path.isfile(os.path.join(final, 'OK')):
                self.cache_hit = True
                return os.path.join(final, 'classes')
            return self._compile_into(tc, text, key, final)
        finally:
            lock.close()

    def _compile_into(self, tc, text, key, final) -> str:
        tmp = tempfile.mkdtemp(prefix=f'tmp-{self.name}-', dir=CACHE)
        try:
            srcf = os.path.join(tmp, 'Slice.scala')
            with open(srcf, 'w', encoding='utf-8') as f:
                f.write(text)
            out = os.path.join(tmp, 'classes')
            os.makedirs(out)
            cmd = [tc['java'], '-Xss8m', '-Xmx768m', '-XX:+TieredCompilation', '-XX:TieredStopAtLevel=1',
                   '-cp', os.pathsep.join(tc['compiler_cp']), 'dotty.tools.dotc.Main',
                   '-classpath', os.pathsep.join(self.lib_classpath()), '-source:3.0-migration', '-nowarn',
                   '-d', out, srcf]
            t0 = time.time()
            try:
                p = subprocess.run(cmd, stdout=subprocess.PIPE, stderr=subprocess.STDOUT, timeout=600)
            except (OSError, subprocess.TimeoutExpired) as e:
                raise JvmSliceError(f'cannot run the Scala compiler: {e}')
            self.compile_s = time.time() - t0
            if p.returncode != 0 or not os.path.exists(os.path.join(out, 'SliceMain.class')):
                keep = os.path.join(tempfile.gettempdir(), f'jvmslice-failed-{self.name}-{key[:12]}.scala')
                try:
                    shutil.copy(srcf, keep)
                except OSError:
                    keep = '(not kept)'
                raise JvmSliceError(f'slice {self.name!r} does not compile (source kept at {keep}):\n'
                                    + p.stdout.decode(errors='replace')[-4000:])
            with open(os.path.join(tmp, 'OK'), 'w') as f:
                f.write(f'compiled in {self.compile_s:.1f}s\n')
            try:
                os.rename(tmp, final)          # atomic publish; losing a race is harmless
                tmp = None
            except OSError:
                if not os.path.isfile(os.path.join(final, 'OK')):
                    raise JvmSliceError(f'cannot publish compiled slice to {final}')
        finally:
            if tmp is not None:
                shutil.rmtree(tmp, ignore_errors=True)
        return os.path.join(final, 'classes')

    def start(self) -> 'Jvm':
        classes = self.compile()
        return Jvm(self, classes)


class Jvm:
    """One running JVM for a slice.  `ask(['op 1 2', 'op 3 4'])` -> list of decoded JSON replies."""

    def __init__(self, sl: Slice, classes: str):
        tc = toolchain()
        cp = os.pathsep.join([classes] + sl.lib_classpath())
        self.cmd = [tc['java'], '-Xss16m', '-Xmx512m', '-XX:+UseSerialGC', '-Xshare:auto',
                    '-cp', cp, 'SliceMain']
        self.name = sl.name
        self.p = None
        self._start()

    def _start(self):
        try:
            self.p = subprocess.Popen(self.cmd, stdin=subprocess.PIPE, stdout=subprocess.PIPE, stderr=subprocess.PIPE)
        except OSError as e:
            raise JvmSliceError(f'cannot start JVM: {e}')
        line = self.p.stdout.readline()
        if b'ready' not in line:
            err = self.p.stderr.read().decode(errors='replace')[-2000:]
            raise JvmSliceError(f'slice JVM {self.name!r} did not start: {line!r} {err}')

    def ask(self, requests):
        """requests: list of 'op arg arg' strings (no ';' or newline).  One round trip."""
        if not requests:
            return []
        for r in requests:
            if ';' in r or '\n' in r:
                raise JvmSliceError(f'bad request {r!r}')
        data = (';'.join(requests) + '\n').encode()
        try:
            self.p.stdin.write(data)
            self.p.stdin.flush()
            line = self.p.stdout.readline()
        except (OSError, ValueError) as e:
            raise JvmSliceError(f'slice JVM {self.name!r} I/O failed: {e}')
        if not line:
            err = ''
            try:
                err = self.p.stderr.read().decode(errors='replace')[-2000:]
            except Exception:
                pass
            raise JvmSliceError(f'slice JVM {self.name!r} died (rc={self.p.poll()}): {err}')
        try:
            out = json.loads(line)
        except ValueError:
            raise JvmSliceError(f'slice JVM {self.name!r} sent a malformed reply: {line[:300]!r}')
        if not isinstance(out, list) or len(out) != len(requests):
            raise JvmSliceError(f'slice JVM {self.name!r}: {len(requests)} requests, {len(out) if isinstance(out, list) else "?"} replies')
        return out

    def ask_chunked(self, requests, chunk=2000):
        out = []
        for i in range(0, len(requests), chunk):
            out.extend(self.ask(requests[i:i + chunk]))
        return out

    def close(self):
        if self.p is not None:
            try:
                self.p.stdin.close()
                self.p.wait(timeout=10)
            except Exception:
                try:
                    self.p.kill()
                except Exception:
                    pass
            self.p = None

    def __enter__(self):
        return self

    def __exit__(self, *a):
        self.close()
        return False


def hexs(s: str) -> str:
    """Encode a string argument for the line protocol."""
    return 'x:' + s.encode('utf-8').hex()


def fnum(x) -> float:
    """Decode a double the slice sent with SliceIO.d (Java Double.toString: 'NaN', 'Infinity', '-Infinity', ...)."""
    return float(x)
