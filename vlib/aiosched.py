"""E4 aiosched — an asyncio loop whose clock and schedule are owned by the harness.

VirtualLoop.time() is virtual.  Nothing ever blocks in select(): the harness drives the loop with
    settle()       run every ready callback until none is left (time does not move)
    advance(dt)    move the clock forward, firing timers in order, settling after each
    run_all()      fire timers until neither ready callbacks nor timers remain
    run(coro)      run_until_complete with automatic clock jumps (for code that only sleeps)
"""
from __future__ import annotations

import asyncio
import os
import heapq
import threading
from asyncio import events


class Livelock(RuntimeError):
    pass


class Deadlock(RuntimeError):
    pass


class VirtualLoop(asyncio.SelectorEventLoop):
    def __init__(self):
        super().__init__()
        self._vtime = 1_000_000.0
        self._auto_jump = True
        self.detect_deadlock = False
        self.max_time = None
        self.slept = []   # durations passed to call_later/call_at deltas (for sleep bookkeeping)

    def time(self):
        return self._vtime

    # -- helpers -------------------------------------------------------------------------------
    def _drop_cancelled_head(self):
        while self._scheduled and self._scheduled[0]._cancelled:
            h = heapq.heappop(self._scheduled)
            h._scheduled = False
            self._timer_cancelled_count -= 1 if self._timer_cancelled_count > 0 else 0

    def _run_once(self):
        if not self._ready:
            self._drop_cancelled_head()
        if self.detect_deadlock and not self._ready and not self._scheduled:
            # nothing is runnable and no timer is pending: every task waits on something nobody will ever complete
            where = ''
            if os.environ.get('VERIF_DEADLOCK_STACKS'):
                import io
                buf = io.StringIO()
                for t in asyncio.all_tasks(self):
                    if not t.done():
                        buf.write(f'--- {t.get_name()}\n')
                        c = t.get_coro()
                        while c is not None:     # a suspended task exposes one frame only: walk the await chain ourselves
                            fr = getattr(c, 'cr_frame', None) or getattr(c, 'gi_frame', None) or getattr(c, 'ag_frame', None)
                            if fr is not None:
                                buf.write(f'    {fr.f_code.co_filename}:{fr.f_lineno} {fr.f_code.co_name}\n')
                            c = getattr(c, 'cr_await', None) or getattr(c, 'gi_yieldfrom', None) or getattr(c, 'ag_await', None)
                where = '\n' + buf.getvalue()
            raise Deadlock('event loop idle: all tasks are blocked' + where)
        if self.max_time is not None and self._vtime > self.max_time:
            raise Deadlock('virtual clock ran away: some task keeps sleeping and retrying forever')
        if self._auto_jump and not self._ready:
            self._drop_cancelled_head()
            if self._scheduled:
                when = self._scheduled[0]._when
                if when > self._vtime:
                    self._vtime = when
        super()._run_once()

    class _Running:
        def __init__(self, loop):
            self.loop = loop

        def __enter__(self):
            self.old = events._get_running_loop()
            self.old_tid = self.loop._thread_id
            events._set_running_loop(self.loop)
            self.loop._thread_id = threading.get_ident()

        def __exit__(self, *a):
            events._set_running_loop(self.old)
            self.loop._thread_id = self.old_tid

    def settle(self, limit=20000):
        """Run ready callbacks until none remain; the clock does not move."""
        n = 0
        with self._Running(self):
            while self._ready:
                saved = self._auto_jump
                self._auto_jump = False
                try:
                    super()._run_once()
                finally:
                    self._auto_jump = saved
                n += 1
                if n > limit:
                    raise Livelock('settle: ready queue never empties')
        return n

    def next_timer(self):
        self._drop_cancelled_head()
        return self._scheduled[0]._when if self._scheduled else None

    def advance(self, dt: float):
        target = self._vtime + dt
        self.settle()
        with self._Running(self):
            while True:
                when = self.next_timer()
                if when is None or when > target:
                    break
                if when > self._vtime:
                    self._vtime = when
                saved = self._auto_jump
                self._auto_jump = False
                try:
                    super()._run_once()   # moves due timers to ready and runs them
                finally:
                    self._auto_jump = saved
                self.settle()
        self._vtime = max(self._vtime, target)
        self.settle()

    def run_all(self, limit=20000):
        n = 0
        self.settle()
        while True:
            when = self.next_timer()
            if when is None:
                break
            self.advance(max(0.0, when - self._vtime))
            n += 1
            if n > limit:
                raise Livelock('run_all: timers never end')
        return n

    def run(self, coro):
        return self.run_until_complete(coro)


def new_loop() -> VirtualLoop:
    loop = VirtualLoop()
    asyncio.set_event_loop(loop)
    return loop


def close_loop(loop: VirtualLoop):
    """Cancel whatever is left, close the loop; returns the number of tasks that were still pending."""
    pending = [t for t in asyncio.all_tasks(loop) if not t.done()]
    for t in pending:
        t.cancel()
    if pending:
        try:
            loop.settle()
        except Exception:
            pass
    try:
        loop.close()
    finally:
        asyncio.set_event_loop(None)
    return len(pending)


class Gate:
    """An awaitable the harness opens, fails or leaves closed."""

    def __init__(self, loop):
        self.fut = loop.create_future()

    @property
    def is_open(self):
        return self.fut.done()

    def open(self, value=None):
        if not self.fut.done():
            self.fut.set_result(value)

    def fail(self, exc):
        if not self.fut.done():
            self.fut.set_exception(exc)

    def __await__(self):
        return self.fut.__await__()
