"""E7 runner — CLI, shard pool, known-finding matching, replay and evidence writing.

A check module (checks/cNN.py) defines:

    PROPERTY   = 'C25'
    LEVEL      = 'exploration' | 'fault_enumeration' | 'translation_validation'
    RULE       = 'how cases are generated and what counts as non-trivial'
    ASSUMPTIONS = [...]
    TRUSTED    = [...]
    def plan(tier) -> list[dict]                  # one JSON-able spec per shard
    def run_shard(spec, seed, tier) -> Result     # executed in a worker process
    def replay(case) -> list[Failure]             # re-run one saved case without Hypothesis

Result is vlib.runner.Result.  Failure = dict(signature=str, clause=str, message=str, case=json-able).
Exit codes: 0 held (maybe KNOWN-FINDING lines), 1 VIOLATION, 2 harness error / inconclusive.
"""
from __future__ import annotations

import argparse
import hashlib
import importlib
import json
import multiprocessing as mp
import os
import sys
import time
import traceback

VERIF = os.path.dirname(os.path.dirname(os.path.abspath(__file__)))


def canon(obj) -> str:
    return json.dumps(obj, sort_keys=True, default=repr, ensure_ascii=True, separators=(',', ':'))


def case_hash(obj) -> int:
    return int.from_bytes(hashlib.blake2b(canon(obj).encode(), digest_size=8).digest(), 'big')


class Result:
    """Accumulator used inside a shard."""

    def __init__(self):
        self.evaluations = 0
        self.nontrivial = set()      # 64-bit hashes of distinct non-trivial cases
        self.nontrivial_extra = 0    # distinct-by-construction (exhaustive enumeration) count
        self.classes = {}
        self.samples = []
        self.failures = []           # list of dict(signature, clause, message, case)
        self.known_hits = {}         # signature -> count (cases excluded / matched to known findings)
        self.skipped_ops = 0
        self.exhaustive = None
        self.notes = {}
        self.inconclusive = None
        self._sample_cap = 4

    def case(self, case, nontrivial: bool, classes=()):
        self.evaluations += 1
        if nontrivial:
            self.nontrivial.add(case_hash(case))
            if len(self.samples) < self._sample_cap and (self.evaluations % 7 == 1 or len(self.samples) == 0):
                self.samples.append(case)
        for c in classes:
            self.classes[c] = self.classes.get(c, 0) + 1

    def count(self, cls, n=1):
        self.classes[cls] = self.classes.get(cls, 0) + n

    def fail(self, signature, clause, message, case):
        for f in self.failures:
            if f['signature'] == signature:
                f['count'] = f.get('count', 1) + 1
                # keep the smallest case
                if len(canon(case)) < len(canon(f['case'])):
                    f['case'] = case
                    f['message'] = message
                return
        self.failures.append(dict(signature=signature, clause=clause, message=str(message)[:2000], case=case, count=1))

    def to_dict(self):
        return dict(evaluations=self.evaluations, nontrivial=sorted(self.nontrivial),
                    nontrivial_extra=self.nontrivial_extra, classes=self.classes, samples=self.samples,
                    failures=self.failures, known_hits=self.known_hits, skipped_ops=self.skipped_ops,
                    exhaustive=self.exhaustive, notes=self.notes, inconclusive=self.inconclusive)


def load_known(prop):
    p = os.path.join(VERIF, 'known_findings.json')
    if not os.path.exists(p):
        return []
    with open(p) as f:
        data = json.load(f)
    return [e for e in data.get('findings', []) if e.get('property') == prop]


def known_signatures(prop):
    """signature -> what, for entries with status 'known' (a 'fixed' entry suppresses nothing)."""
    return {e['signature']: e.get('what', '') for e in load_known(prop) if e.get('status') == 'known'}


def _shard_entry(args):
    modname, spec, seed, tier = args
    os.environ['VERIF_IN_SHARD'] = '1'
    import logging
    logging.disable(logging.CRITICAL)
    import warnings as _w
    _w.filterwarnings('ignore', message=r'coroutine .* was never awaited', category=RuntimeWarning)   # torn-down harness tasks
    t0 = time.time()
    try:
        mod = importlib.import_module(modname)
        res = mod.run_shard(spec, seed, tier)
        d = res.to_dict()
        d['wall_s'] = time.time() - t0
        d['spec'] = spec
        return ('ok', d)
    except BaseException as e:  # harness error inside the shard
        return ('error', dict(spec=spec, error=f'{type(e).__name__}: {e}', traceback=traceback.format_exc()))


def derive_seed(seed: int, prop: str, shard: int) -> int:
    h = hashlib.blake2b(f'{seed}/{prop}/{shard}'.encode(), digest_size=8).digest()
    return int.from_bytes(h, 'big') & 0x7FFFFFFFFFFFFFFF


def main(argv=None):
    ap = argparse.ArgumentParser()
    ap.add_argument('prop')
    ap.add_argument('--tier', default=os.environ.get('VERIF_TIER', 'quick'), choices=['quick', 'thorough'])
    ap.add_argument('--seed', type=int, default=None)
    ap.add_argument('--replay', default=None)
    ap.add_argument('--jobs', type=int, default=int(os.environ.get('VERIF_JOBS', '16')))
    ap.add_argument('--no-evidence', action='store_true')
    a = ap.parse_args(argv)
    prop = a.prop.upper()
    seed = a.seed if a.seed is not None else int(os.environ.get('VERIF_SEED', '1') or '1')
    modname = f'checks.{prop.lower()}'
    if VERIF not in sys.path:
        sys.path.insert(0, VERIF)
    t0 = time.time()
    try:
        mod = importlib.import_module(modname)
    except Exception:
        traceback.print_exc()
        print(f'HARNESS-ERROR property={prop} cannot import {modname}')
        return 2

    known = known_signatures(prop)

    if a.replay:
        return _do_replay(mod, prop, a.replay, known)

    try:
        specs = mod.plan(a.tier)
    except Exception:
        traceback.print_exc()
        print(f'HARNESS-ERROR property={prop} plan() failed')
        return 2

    import logging
    logging.disable(logging.CRITICAL)
    import warnings as _w
    _w.filterwarnings('ignore', message=r'coroutine .* was never awaited', category=RuntimeWarning)   # torn-down harness tasks
    # replay corpus first (committed shrunk failures / regression inputs)
    corpus_failures = []
    corpus_n = 0
    cdir = os.path.join(VERIF, 'corpus', prop)
    if os.path.isdir(cdir) and hasattr(mod, 'replay'):
        for fn in sorted(os.listdir(cdir)):
            if not fn.endswith('.json'):
                continue
            with open(os.path.join(cdir, fn)) as f:
                doc = json.load(f)
            try:
                fs = mod.replay(doc['case'])
            except Exception:
                traceback.print_exc()
                print(f'HARNESS-ERROR property={prop} corpus replay {fn} crashed')
                return 2
            corpus_n += 1
            for fl in fs or []:
                fl = dict(fl)
                fl['from_corpus'] = fn
                corpus_failures.append(fl)

    jobs = [(modname, s, derive_seed(seed, prop, i), a.tier) for i, s in enumerate(specs)]
    results = []
    errors = []
    nproc = max(1, min(a.jobs, len(jobs)))
    if nproc == 1 or os.environ.get('VERIF_INLINE'):
        outs = [_shard_entry(j) for j in jobs]
    else:
        ctx = mp.get_context('spawn')
        with ctx.Pool(nproc, maxtasksperchild=1) as pool:
            outs = pool.map(_shard_entry, jobs, chunksize=1)
    for kind, d in outs:
        (results if kind == 'ok' else errors).append(d)

    if errors:
        for e in errors[:3]:
            print(e['traceback'])
        print(f'HARNESS-ERROR property={prop} {len(errors)} shard(s) crashed: {errors[0]["error"]}')
        return 2

    # merge
    evaluations = sum(r['evaluations'] for r in results) + corpus_n
    nontriv = set()
    extra = 0
    classes = {}
    samples = []
    failures = {}
    known_hits = {}
    skipped = 0
    notes = {}
    exhaustive_flags = [r['exhaustive'] for r in results if r['exhaustive'] is not None]
    inconclusive = [r['inconclusive'] for r in results if r['inconclusive']]
    for r in results:
        nontriv.update(r['nontrivial'])
        extra += r['nontrivial_extra']
        for k, v in r['classes'].items():
            classes[k] = classes.get(k, 0) + v
        for s in r['samples']:
            if len(samples) < 6:
                samples.append(s)
        for f in r['failures']:
            g = failures.get(f['signature'])
            if g is None or len(canon(f['case'])) < len(canon(g['case'])):
                if g is not None:
                    f['count'] = f.get('count', 1) + g.get('count', 1)
                failures[f['signature']] = f
            else:
                g['count'] = g.get('count', 1) + f.get('count', 1)
        for k, v in r['known_hits'].items():
            known_hits[k] = known_hits.get(k, 0) + v
        skipped += r['skipped_ops']
        for k, v in r['notes'].items():
            if isinstance(v, (int, float)) and isinstance(notes.get(k, 0), (int, float)):
                notes[k] = notes.get(k, 0) + v
            else:
                notes[k] = v
    for f in corpus_failures:
        failures.setdefault(f['signature'], f)

    new = []
    for sig, f in sorted(failures.items()):
        if sig in known:
            known_hits[sig] = known_hits.get(sig, 0) + f.get('count', 1)
        else:
            new.append(f)
    for sig in sorted(known_hits):
        if sig in known:
            print(f'KNOWN-FINDING: property={prop} {known[sig]} [signature={sig}; {known_hits[sig]} case(s) this run]')
    # a known finding that is listed must still be *printed* when the defect is present; if it no longer
    # manifests we say so (informational) and do not print KNOWN-FINDING.
    for sig in known:
        if sig not in known_hits:
            print(f'note: known finding {sig} did not manifest in this run')

    rdir = os.path.join(os.environ.get('VERIF_REPLAY_DIR') or os.path.join(VERIF, 'replays'), prop)
    vlines = []
    for f in new:
        os.makedirs(rdir, exist_ok=True)
        h = hashlib.blake2b(canon(f['case']).encode(), digest_size=6).hexdigest()
        safe = ''.join(c if c.isalnum() or c in '-_.' else '_' for c in f['signature'])[:80]
        path = os.path.join(rdir, f'{safe}-{h}.json')
        with open(path, 'w') as fh:
            json.dump(dict(property=prop, signature=f['signature'], clause=f.get('clause'), message=f.get('message'),
                           case=f['case'], seed=seed, tier=a.tier), fh, indent=1, default=repr)
        rel = os.path.relpath(path, VERIF)
        print(f'  clause: {f.get("clause")}\n  message: {str(f.get("message"))[:600]}')
        vlines.append(f'VIOLATION property={prop} replay={rel}')

    wall = time.time() - t0
    distinct = len(nontriv) + extra
    cov = dict(evaluations=evaluations, distinct_nontrivial=distinct, rule=getattr(mod, 'RULE', ''),
               samples=samples[:6], classes=classes, skipped_ops=skipped, excluded_known=sum(known_hits.values()),
               known_findings_matched=sorted(k for k in known_hits if k in known), shards=len(results),
               corpus_replayed=corpus_n, trusted_base=getattr(mod, 'TRUSTED', []))
    if exhaustive_flags:
        cov['exhaustive'] = all(exhaustive_flags)
    if notes:
        cov['notes'] = notes
    level = getattr(mod, 'LEVEL', 'exploration')
    if level == 'translation_validation':
        cov['programs'] = evaluations
        cov['disagreements_checked'] = classes.get('compared', evaluations)
    ev = dict(property_id=prop, tier=a.tier, seed=seed, level=level, coverage=cov,
              assumptions=getattr(mod, 'ASSUMPTIONS', []), wall_s=round(wall, 2), violations=len(new))
    if not a.no_evidence:
        os.makedirs(os.path.join(VERIF, 'evidence'), exist_ok=True)
        try:
            _validate_evidence(ev)
        except Exception as e:
            print(f'HARNESS-ERROR property={prop} evidence does not validate: {e}')
            if not new:
                return 2
        with open(os.path.join(VERIF, 'evidence', f'{prop}.json'), 'w') as fh:
            json.dump(ev, fh, indent=1, default=repr)

    print(f'{prop} tier={a.tier} seed={seed} evaluations={evaluations} distinct_nontrivial={distinct} '
          f'new_violations={len(new)} known_matched={len([k for k in known_hits if k in known])} wall={wall:.1f}s')
    if vlines:
        for l in vlines:
            print(l)
        return 1
    if inconclusive:
        print(f'INCONCLUSIVE property={prop} {inconclusive[0]}')
        return 2
    return 0


def _validate_evidence(ev):
    deps = os.path.join(VERIF, '.deps')
    if deps not in sys.path and os.path.isdir(deps):
        sys.path.append(deps)
    try:
        import jsonschema
    except ImportError:
        # minimal structural validation
        c = ev['coverage']
        assert c['evaluations'] >= 1 and c['distinct_nontrivial'] >= 2 and c['samples'], 'coverage too thin'
        return
    schema_path = '/root/.vp/EVIDENCE.schema.json'
    if not os.path.exists(schema_path):
        schema_path = os.path.join(VERIF, 'vlib', 'EVIDENCE.schema.json')
    with open(schema_path) as f:
        schema = json.load(f)
    jsonschema.validate(json.loads(json.dumps(ev, default=repr)), schema)


def _do_replay(mod, prop, path, known):
    if not os.path.isabs(path):
        path = os.path.join(VERIF, path)
    with open(path) as f:
        doc = json.load(f)
    import logging
    logging.disable(logging.CRITICAL)
    import warnings as _w
    _w.filterwarnings('ignore', message=r'coroutine .* was never awaited', category=RuntimeWarning)   # torn-down harness tasks
    try:
        fs = mod.replay(doc['case']) or []
    except Exception:
        traceback.print_exc()
        print(f'HARNESS-ERROR property={prop} replay crashed')
        return 2
    new = [f for f in fs if f['signature'] not in known]
    for f in fs:
        print(f"replay: signature={f['signature']} clause={f.get('clause')} message={str(f.get('message'))[:800]}")
        if f['signature'] in known:
            print(f"KNOWN-FINDING: property={prop} {known[f['signature']]}")
    if new:
        print(f'VIOLATION property={prop} replay={os.path.relpath(path, VERIF)}')
        return 1
    print(f'{prop} replay held')
    return 0


if __name__ == '__main__':
    sys.exit(main())
