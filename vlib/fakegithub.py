"""Fake GitHub + fake Batch service + fake db for driving ci.ci.github (property C30).

Everything here is *ground truth with a REST/GraphQL face*: the code under test (WatchedBranch / PR in
/repo/ci/ci/github.py) talks to these objects exactly as it talks to gidgethub's GitHubAPI, hailtop's BatchClient and
gear's Database.  Only the client surface that github.py uses is implemented; any other call raises HarnessBug (a
BaseException, so no `except Exception` in the code under test can swallow it).

GitHub surface implemented
    getitem  /repos/{repo}/git/refs/heads/{branch}
    getiter  /repos/{repo}/pulls?state=open&base={branch}
    post     /graphql                       (the one query shape of PR._update_github: reviewDecision + statusCheckRollup
                                             of the head commit, `first: N` / `after: "cursor"` paging)
    post     /repos/{repo}/statuses/{sha}   (CI's own commit status)
    post     /repos/{repo}/issues/{n}/assignees
    put      /repos/{repo}/pulls/{n}/merge  data={'merge_method','sha'}  -> 404 unknown, 405 not open / conflict,
                                             409 head sha mismatch, else merges: PR 'merged', branch moves to a new sha

Each mutable fact carries the logical tick of its last change; each read by CI is stamped too, so an oracle can tell
"CI had read this fact since it last changed" from "the change has not been delivered to CI yet".

Fault injection (FaultPlan): the history can arm faults; an armed fault makes the k-th upcoming client call of a class
(GitHub: refs / pulls / graphql / status / assignees / merge / gh-any; Batch: list / bstatus / submit / cancel /
batch-any) raise instead of being served.  A fault is *fail-before-effect*: the request is not served, no ground truth
changes and no "CI has read ..." stamp is taken (a 5xx / refused / timed-out request).  Exception types are the ones the
real transports produce: gidgethub.HTTPException (GitHubBroken 502, BadRequest 403), asyncio.TimeoutError (aiohttp total
timeout of the raw session handed to gidgethub), aiohttp.ServerDisconnectedError, aiohttp.ClientResponseError (named in
github.py's except clauses); for the Batch client only NON-transient hailtop.httpx.ClientResponseError (404/403): the real
BatchClient retries every transient error forever inside hailtop.aiocloud Session.request, so those never surface.

Re-entrant delivery (ReentryPlan): the history can also arm "during the k-th upcoming client call of class C, this event
happens": when that call is reached the fake awaits the armed coroutine function (the harness changes ground truth there
and runs the service's webhook / batch-callback entry point as a concurrent task, exactly what the aiohttp server does
while an update is suspended in this very call), either BEFORE the request is served (`when='post'`: the response carries
the post-change data) or AFTER the response was computed and the read stamps were taken (`when='pre'`: the response
carries the pre-change data).  The call then returns -- or raises its injected fault -- as usual.
"""
from __future__ import annotations

import re
import sys
import types


class HarnessBug(BaseException):
    """A defect of the harness (unexpected URL, malformed call); never caught by the code under test."""


class UpdateLivelock(BaseException):
    """One service entry point made more GitHub calls than any terminating update can (raised by the fake)."""


# ---------------------------------------------------------------------------------------------------------------------
# gidgethub stand-in

def install_gidgethub():
    """Install a tiny `gidgethub` (HTTPException/BadRequest with .status_code) unless one is already imported.
    Must run after hostenv.install() and before `import ci.github` to take effect; harmless otherwise."""
    cur = sys.modules.get('gidgethub')
    if cur is not None and getattr(cur, '__verif_fake__', False):
        return cur
    if cur is not None:
        return cur      # someone imported hostenv's inert stub already: http_error() adapts to whatever ci.github bound

    class GitHubException(Exception):
        pass

    class HTTPException(GitHubException):
        def __init__(self, status_code, *args):
            self.status_code = status_code
            super().__init__(*(args or (f'HTTP {status_code}',)))

    class BadRequest(HTTPException):
        pass

    class GitHubBroken(HTTPException):
        pass

    m = types.ModuleType('gidgethub')
    m.__verif_fake__ = True
    m.__path__ = []
    m.GitHubException, m.HTTPException, m.BadRequest, m.GitHubBroken = GitHubException, HTTPException, BadRequest, GitHubBroken
    for sub in ('aiohttp', 'routing', 'sansio', 'abc'):
        s = types.ModuleType(f'gidgethub.{sub}')
        s.__verif_fake__ = True
        setattr(m, sub, s)
        sys.modules[f'gidgethub.{sub}'] = s
    m.aiohttp.GitHubAPI = type('GitHubAPI', (), {})

    class Router:
        def register(self, *a, **k):
            return lambda f: f

        async def dispatch(self, *a, **k):
            pass
    m.routing.Router = Router
    m.sansio.Event = type('Event', (), {})
    sys.modules['gidgethub'] = m
    return m


_ERR_CACHE = {}


def http_error(gidgethub_mod, status, msg):
    """An instance of (a subclass of) the HTTPException class that ci.github's `except` clauses name."""
    name = 'GitHubBroken' if status >= 500 else 'BadRequest'      # gidgethub.sansio: 5xx -> GitHubBroken, 4xx -> BadRequest
    base = getattr(gidgethub_mod, name, None) if getattr(gidgethub_mod, '__verif_fake__', False) else None
    if base is not None:
        return base(status, msg)
    base = gidgethub_mod.HTTPException
    cls = _ERR_CACHE.get((base, name))
    if cls is None:
        def __init__(self, status_code, *args):
            Exception.__init__(self, *args)
            self.status_code = status_code
        cls = type(base)(name, (base,), {'__init__': __init__})
        _ERR_CACHE[(base, name)] = cls
    return cls(status, msg)


# ---------------------------------------------------------------------------------------------------------------------
# fault injection

GH_CLASSES = ('refs', 'pulls', 'graphql', 'status', 'assignees', 'merge')
BATCH_CLASSES = ('list', 'bstatus', 'submit', 'cancel')
GH_FAULT_KINDS = ('http502', 'http403', 'timeout', 'disconnect', 'client_response_error')
BATCH_FAULT_KINDS = ('batch404', 'batch403')


def _request_info(url):
    import aiohttp
    import multidict
    import yarl
    u = yarl.URL(url)
    return aiohttp.RequestInfo(u, 'GET', multidict.CIMultiDictProxy(multidict.CIMultiDict()), u)


def make_fault(gidgethub_mod, kind):
    """The exception a real transport would raise for this kind of failure."""
    import asyncio
    import aiohttp
    if kind == 'http502':
        return http_error(gidgethub_mod, 502, 'Bad Gateway (injected)')
    if kind == 'http403':
        return http_error(gidgethub_mod, 403, 'API rate limit exceeded (injected)')
    if kind == 'timeout':
        return asyncio.TimeoutError('injected')
    if kind == 'disconnect':
        return aiohttp.ServerDisconnectedError('injected')
    if kind == 'client_response_error':
        return aiohttp.ClientResponseError(_request_info('https://api.github.com/injected'), (), status=502,
                                           message='Bad Gateway (injected)')
    if kind in ('batch404', 'batch403'):
        import hailtop.httpx
        status = int(kind[-3:])
        return hailtop.httpx.ClientResponseError(_request_info('https://batch.hail/injected'), (), body='injected',
                                                 status=status, message={404: 'Not Found', 403: 'Forbidden'}[status])
    raise HarnessBug(f'unknown fault kind {kind!r}')


class FaultPlan:
    """Faults armed by the history.  A fault = dict(side 'gh'|'batch', cls (a call class or 'any'), skip (matching calls
    still served before it fires), n (consecutive matching calls that fail once it fires), kind, ttl (entry points of
    the service it stays armed for)).  Every matching call counts down every armed fault that matches it."""

    def __init__(self, gidgethub_mod, on_fire=None):
        self._gm = gidgethub_mod
        self.armed = []
        self.fired = []          # (side, cls, kind)
        self.injected = []       # the exception objects handed out (identity = "this is an injected fault")
        self.on_fire = on_fire

    def arm(self, side, cls, skip, n, kind, ttl):
        if side == 'gh':
            ok = cls in GH_CLASSES + ('any',) and kind in GH_FAULT_KINDS
        else:
            ok = side == 'batch' and cls in BATCH_CLASSES + ('any',) and kind in BATCH_FAULT_KINDS
        if not ok or skip < 0 or n < 1 or ttl < 1:
            raise HarnessBug(f'malformed fault {(side, cls, skip, n, kind, ttl)!r}')
        self.armed.append(dict(side=side, cls=cls, skip=skip, n=n, kind=kind, ttl=ttl))

    def check(self, side, cls):
        """Called by the fakes at the start of every client call, before any effect: raises if a fault fires."""
        firing = None
        for f in list(self.armed):
            if f['side'] != side or f['cls'] not in ('any', cls):
                continue
            if f['skip'] > 0:
                f['skip'] -= 1
                continue
            f['n'] -= 1
            if f['n'] <= 0:
                self.armed.remove(f)
            if firing is None:
                firing = f
        if firing is None:
            return
        exc = make_fault(self._gm, firing['kind'])
        self.injected.append(exc)
        self.fired.append((side, cls, firing['kind']))
        if self.on_fire is not None:
            self.on_fire(side, cls, firing['kind'])
        raise exc

    def is_injected(self, exc):
        seen = 0
        while exc is not None and seen < 8:
            if any(exc is e for e in self.injected):
                return True
            exc = exc.__cause__ or exc.__context__
            seen += 1
        return False

    def end_entry_point(self):
        for f in list(self.armed):
            f['ttl'] -= 1
            if f['ttl'] <= 0:
                self.armed.remove(f)


class ReentryPlan:
    """Events armed to happen INSIDE a client call.  An entry = dict(side 'gh'|'batch', cls (a call class or 'any'), skip
    (matching calls that pass before it), when 'pre'|'post', fn (async callable(side, cls, when)), ttl (entry points of the
    service it stays armed for)).  Calls are counted whether or not a fault makes them fail."""

    def __init__(self):
        self.armed = []
        self.n_fired = 0

    def arm(self, side, cls, skip, when, fn, ttl):
        if side == 'gh':
            ok = cls in GH_CLASSES + ('any',)
        else:
            ok = side == 'batch' and cls in BATCH_CLASSES + ('any',)
        if not ok or skip < 0 or when not in ('pre', 'post') or ttl < 1:
            raise HarnessBug(f'malformed re-entrant delivery {(side, cls, skip, when, ttl)!r}')
        self.armed.append(dict(side=side, cls=cls, skip=skip, when=when, fn=fn, ttl=ttl))

    def due(self, side, cls):
        """Called by the fakes on entry to every client call: the entries that happen during this very call."""
        out = []
        for f in list(self.armed):
            if f['side'] != side or f['cls'] not in ('any', cls):
                continue
            if f['skip'] > 0:
                f['skip'] -= 1
                continue
            self.armed.remove(f)
            out.append(f)
        return out

    async def fire(self, due, when, side, cls):
        for f in due:
            if f['when'] == when:
                self.n_fired += 1
                await f['fn'](side, cls, when)

    def end_entry_point(self):
        for f in list(self.armed):
            f['ttl'] -= 1
            if f['ttl'] <= 0:
                self.armed.remove(f)


class _During:
    """`async with _During(plan, side, cls):` around the body of a fake client call: 'post' events land before the body
    (the request is served from the changed ground truth), 'pre' events after it (also when the body raised a fault)."""

    def __init__(self, plan, side, cls):
        self.plan, self.side, self.cls = plan, side, cls
        self.due = plan.due(side, cls) if plan is not None else ()

    async def __aenter__(self):
        if self.due:
            await self.plan.fire(self.due, 'post', self.side, self.cls)
        return self

    async def __aexit__(self, et, ev, tb):
        if self.due:
            await self.plan.fire(self.due, 'pre', self.side, self.cls)
        return False


# ---------------------------------------------------------------------------------------------------------------------
# GitHub

_STATUS_STATES = ('SUCCESS', 'PENDING', 'FAILURE', 'ERROR', 'EXPECTED')
_CHECK_CONCLUSIONS = ('SUCCESS', 'FAILURE', 'NEUTRAL', 'CANCELLED', 'TIMED_OUT', 'ACTION_REQUIRED', 'SKIPPED', 'STALE',
                      'STARTUP_FAILURE', None)
PASSING = ('SUCCESS', 'NEUTRAL')


class FakeGitHub:
    def __init__(self, gidgethub_mod, *, owner='hail-is', name='hail', branch='main', ci_context='ci-test',
                 required=('lint', 'build'), ci_required=True, filler=0, dismiss_stale=False, monitor=None, faults=None,
                 reentry=None):
        self._gm = gidgethub_mod
        self.faults = faults
        self.reentry = reentry
        self.owner, self.name, self.branch = owner, name, branch
        self.repo = f'{owner}/{name}'
        self.ci_context = ci_context
        self.required = set(required) | ({ci_context} if ci_required else set())
        self.filler = filler
        self.dismiss_stale = dismiss_stale
        self.monitor = monitor
        self.tick = 0
        # ground truth
        self.target_sha = 'T0'
        self.target_hist = ['T0']
        self.target_t = 0
        self.target_move_ticks = []
        self.prs = {}            # number -> dict
        self.statuses = {}       # sha -> {context: dict(kind, state, by)}
        self.status_t = {}       # sha -> tick of the last change made by someone other than CI
        self.n_merge_shas = 0
        # what CI has read, and when
        self.refs_read = -1
        self.refs_attempt_t = -1  # tick at which CI last STARTED a refresh (the refs GET was sent, served or not)
        self.pulls_read = -1
        self.gql_read = {}
        self._gql_first = {}      # PR -> tick at which the first page of the paged read in progress was served
        self.merges_since_refs_read = 0
        self.n_calls = 0
        self.call_budget = None   # set by the harness before each entry point; None = unlimited
        self.paged = False
        self.assignee_posts = 0
        self.ci_status_posts = []
        self.ci_status_lost = {}  # sha -> (state, tick) of CI's most recent status post for it, if that post was lost to a fault

    def _tick(self):
        self.tick += 1
        return self.tick

    def _call(self, cls=None):
        self.n_calls += 1
        if self.call_budget is not None:
            self.call_budget -= 1
            if self.call_budget < 0:
                raise UpdateLivelock('GitHub call budget of one update exhausted')
        if cls is not None and self.faults is not None:
            self.faults.check('gh', cls)      # fail-before-effect: nothing below has happened when this raises

    # -- ground-truth mutations (the harness's side) ---------------------------------------------------------------
    def open_pr(self, *, head=None, approved=False, labels=(), author='ehigham'):
        n = len(self.prs) + 1
        t = self._tick()
        head = head or f'S{n}.0'
        self.prs[n] = dict(number=n, state='open', head=head, heads=[head], ref=f'br{n}', labels=list(labels),
                           review='APPROVED' if approved else 'REVIEW_REQUIRED', author=author, conflict=False,
                           assignees=['ehigham'] if n % 2 == 0 else [],
                           head_t=t, labels_t=t, open_t=t, review_t=t)
        return n

    def push(self, n, sha=None):
        pr = self.prs[n]
        t = self._tick()
        sha = sha or f'S{n}.{len(pr["heads"])}'
        pr['head'] = sha
        pr['heads'].append(sha)
        pr['head_t'] = t
        if self.dismiss_stale and pr['review'] == 'APPROVED':
            pr['review'] = 'REVIEW_REQUIRED'
            pr['review_t'] = t
        return sha

    def set_state(self, n, state):
        pr = self.prs[n]
        pr['state'] = state
        pr['open_t'] = self._tick()

    def set_review(self, n, decision):
        pr = self.prs[n]
        pr['review'] = decision
        pr['review_t'] = self._tick()

    def set_label(self, n, label, on):
        pr = self.prs[n]
        if on and label not in pr['labels']:
            pr['labels'].append(label)
        elif not on and label in pr['labels']:
            pr['labels'].remove(label)
        else:
            return False
        pr['labels_t'] = self._tick()
        return True

    def report_status(self, sha, context, kind, state, by='ext'):
        assert kind in ('status', 'check')
        assert state in (_STATUS_STATES if kind == 'status' else _CHECK_CONCLUSIONS), state
        t = self._tick()
        self.statuses.setdefault(sha, {})[context] = dict(kind=kind, state=state, by=by, t=t)
        if by != 'ci':
            self.status_t[sha] = t

    def move_target(self, sha=None):
        t = self._tick()
        if sha is None:
            sha = f'T{len([s for s in self.target_hist if s.startswith("T")])}'
        self.target_sha = sha
        self.target_hist.append(sha)
        self.target_t = t
        self.target_move_ticks.append(t)
        return sha

    def open_prs(self):
        return [n for n, pr in sorted(self.prs.items()) if pr['state'] == 'open']

    # -- helpers --------------------------------------------------------------------------------------------------------
    def _err(self, status, msg):
        return http_error(self._gm, status, msg)

    def _pr_json(self, pr):
        user = lambda login: {'login': login}   # noqa: E731
        repo = {'owner': {'login': self.owner}, 'name': self.name}
        return {
            'number': pr['number'], 'title': f'PR {pr["number"]}', 'body': 'body', 'state': 'open',
            'user': user(pr['author']), 'assignees': [user(a) for a in pr['assignees']], 'requested_reviewers': [],
            'labels': [{'name': l} for l in pr['labels']],
            'head': {'sha': pr['head'], 'ref': pr['ref'], 'repo': dict(repo)},
            'base': {'sha': self.target_sha, 'ref': self.branch, 'repo': dict(repo)},
        }

    def contexts_for(self, sha):
        """The rollup of a commit, in creation order; `filler` non-required contexts come first so that the contexts
        CI cares about sit on the second page of the GraphQL connection."""
        nodes = []
        for i in range(self.filler):
            nodes.append({'__typename': 'StatusContext', 'context': f'filler-{i}', 'state': ('SUCCESS', 'FAILURE')[i % 2],
                          'isRequired': False})
        for ctx, st in self.statuses.get(sha, {}).items():
            if st['kind'] == 'status':
                nodes.append({'__typename': 'StatusContext', 'context': ctx, 'state': st['state'],
                              'isRequired': ctx in self.required})
            else:
                nodes.append({'__typename': 'CheckRun', 'name': ctx, 'conclusion': st['state'],
                              'isRequired': ctx in self.required})
        return nodes

    # -- the client surface ---------------------------------------------------------------------------------------------
    async def getitem(self, url, *a, **k):
        if url == f'/repos/{self.repo}/git/refs/heads/{self.branch}':
            self.refs_attempt_t = self._tick()
            async with _During(self.reentry, 'gh', 'refs'):
                self._call('refs')
                self.refs_read = self._tick()
                self.merges_since_refs_read = 0
                resp = {'ref': f'refs/heads/{self.branch}', 'object': {'sha': self.target_sha, 'type': 'commit'}}
            return resp
        raise HarnessBug(f'fake GitHub: unexpected getitem {url!r}')

    async def getiter(self, url, *a, **k):
        if url != f'/repos/{self.repo}/pulls?state=open&base={self.branch}':
            raise HarnessBug(f'fake GitHub: unexpected getiter {url!r}')
        async with _During(self.reentry, 'gh', 'pulls'):
            self._call('pulls')
            self.pulls_read = self._tick()
            listing = [self._pr_json(self.prs[n]) for n in self.open_prs()]      # one page, computed when the request is served
        for j in listing:
            yield j

    _num_re = re.compile(r'pullRequest \(number: (\d+)\)')
    _after_re = re.compile(r'contexts \(first: (\d+)(?:, after: "([^"]*)")?\)')
    _repo_re = re.compile(r'owner: "([^"]*)",\s*name: "([^"]*)"')

    async def post(self, url, *a, data=None, **k):
        if url == '/graphql':
            async with _During(self.reentry, 'gh', 'graphql'):
                return self._graphql(data)
        m = re.fullmatch(rf'/repos/{re.escape(self.repo)}/statuses/([^/]+)', url)
        if m:
            async with _During(self.reentry, 'gh', 'status'):
                return self._post_status(m.group(1), data)
        m = re.fullmatch(rf'/repos/{re.escape(self.repo)}/issues/(\d+)/assignees', url)
        if m:
            async with _During(self.reentry, 'gh', 'assignees'):
                self._call('assignees')
                self.assignee_posts += 1
                return {}
        raise HarnessBug(f'fake GitHub: unexpected post {url!r}')

    def _graphql(self, data):
        self._call('graphql')
        q = data['query']
        m, c, r = self._num_re.search(q), self._after_re.search(q), self._repo_re.search(q)
        if not (m and c and r) or (r.group(1), r.group(2)) != (self.owner, self.name):
            raise HarnessBug(f'fake GitHub: GraphQL query shape not understood: {q!r}')
        for field in ('reviewDecision', 'statusCheckRollup', 'isRequired (pullRequestNumber', 'commits (last: 1)'):
            if field not in q:
                raise HarnessBug(f'fake GitHub: GraphQL query lacks {field}')
        n = int(m.group(1))
        if n not in self.prs:
            raise HarnessBug(f'fake GitHub: GraphQL for unknown PR {n}')
        pr = self.prs[n]
        first, after = int(c.group(1)), int(c.group(2) or 0)
        nodes = self.contexts_for(pr['head'])
        more = bool(nodes) and after + first < len(nodes)
        if after == 0:
            self._gql_first[n] = self._tick()
        if not more:
            # CI "has read" the PR's review decision and rollup only once the LAST page was served: PR._update_github
            # stores nothing before its paging loop ends, so a fault between two pages leaves its view untouched.  What it
            # then holds is as old as the FIRST page (reviewDecision is taken from the first answer, each context from the
            # page it sat on): a change that landed between two pages has not been read
            self.gql_read[n] = self._gql_first.get(n, self._tick())
        if not nodes:
            rollup = None
        else:
            page = nodes[after:after + first]
            if more:
                self.paged = True
            rollup = {'contexts': {'nodes': page, 'pageInfo': {'endCursor': str(after + len(page)), 'hasNextPage': more}}}
        return {'data': {'repository': {'pullRequest': {
            'reviewDecision': pr['review'],
            'commits': {'nodes': [{'commit': {'statusCheckRollup': rollup}}]}}}}}

    def _post_status(self, sha, data):
        if set(data) - {'state', 'target_url', 'description', 'context'} or data.get('state') not in ('success', 'pending', 'failure', 'error'):
            raise HarnessBug(f'fake GitHub: bad status payload {data!r}')
        try:
            self._call('status')
        except Exception:      # noqa: BLE001  (injected fault: GitHub keeps showing the previous state of CI's context)
            if data['context'] == self.ci_context:
                self.ci_status_lost[sha] = (data['state'].upper(), self._tick())
            raise
        if data['context'] == self.ci_context:
            self.ci_status_lost.pop(sha, None)
        self.report_status(sha, data['context'], 'status', data['state'].upper(), by='ci')
        self.ci_status_posts.append((sha, data['context'], data['state']))
        return {'state': data['state'], 'context': data['context']}

    async def put(self, url, *a, data=None, **k):
        m = re.fullmatch(rf'/repos/{re.escape(self.repo)}/pulls/(\d+)/merge', url)
        if not m:
            raise HarnessBug(f'fake GitHub: unexpected put {url!r}')
        n = int(m.group(1))
        data = data or {}
        if data.get('merge_method', 'merge') not in ('merge', 'squash', 'rebase'):
            raise self._err(422, 'Invalid merge_method')
        verdict = [None]
        if self.monitor is not None:
            self.monitor(n, dict(data), verdict)      # CI's decision to merge is judged whether or not the request is served
        async with _During(self.reentry, 'gh', 'merge'):
            return self._merge(n, data, verdict)

    def _merge(self, n, data, verdict):
        try:
            self._call('merge')
        except Exception as e:      # noqa: BLE001  (an injected fault: the merge is NOT performed)
            verdict[0] = f'fault:{type(e).__name__}'
            raise
        pr = self.prs.get(n)
        if pr is None:
            verdict[0] = 404
            raise self._err(404, 'Not Found')
        if pr['state'] != 'open':
            verdict[0] = 405
            raise self._err(405, 'Pull Request is not mergeable')
        if 'sha' in data and data['sha'] != pr['head']:
            verdict[0] = 409
            raise self._err(409, 'Head branch was modified. Review and try the merge again.')
        if pr['conflict']:
            verdict[0] = 405
            raise self._err(405, 'Pull Request is not mergeable')
        verdict[0] = 200
        pr['state'] = 'merged'
        pr['open_t'] = self._tick()
        self.n_merge_shas += 1
        self.move_target(f'M{n}.{self.n_merge_shas}')
        self.merges_since_refs_read += 1
        return {'sha': self.target_sha, 'merged': True, 'message': 'Pull Request successfully merged'}

    async def patch(self, url, *a, **k):
        raise HarnessBug(f'fake GitHub: unexpected patch {url!r}')

    async def delete(self, url, *a, **k):
        raise HarnessBug(f'fake GitHub: unexpected delete {url!r}')


# ---------------------------------------------------------------------------------------------------------------------
# Batch service

class FakeBatchService:
    """Ground truth of the Batch service: records of submitted batches."""

    def __init__(self, batch_base_cls, clock, faults=None, reentry=None):
        self.records = []     # dict(id, attributes, state, complete, done_t, cancelled_by_ci)
        self._clock = clock   # callable -> tick
        self.faults = faults
        self.reentry = reentry
        self.n_calls = 0
        base = batch_base_cls

        class FakeBatch(base):          # isinstance(x, hailtop.batch_client.aioclient.Batch) must hold
            def __init__(self, svc, rec, attributes=None, callback=None):    # pylint: disable=super-init-not-called
                self._svc = svc
                self._rec = rec
                self._id = rec['id'] if rec is not None else None
                self.attributes = dict(rec['attributes']) if rec is not None else dict(attributes or {})
                self._callback = callback
                self.token = 'tok'

            async def submit(self, *a, **k):
                if self._rec is not None:
                    raise HarnessBug('batch submitted twice')
                async with _During(self._svc.reentry, 'batch', 'submit'):
                    self._svc._call('submit')
                    self._rec = self._svc._new_record(self.attributes)
                    self._id = self._rec['id']
                return self

            async def status(self):
                async with _During(self._svc.reentry, 'batch', 'bstatus'):
                    self._svc._call('bstatus')
                    r = self._rec
                    return {'id': r['id'], 'state': r['state'], 'complete': r['complete'], 'attributes': dict(r['attributes']),
                            'n_jobs': 1, 'n_completed': int(r['complete'])}

            async def cancel(self):
                async with _During(self._svc.reentry, 'batch', 'cancel'):
                    self._svc._call('cancel')
                    if self._rec is not None:
                        self._svc.finish(self._rec['id'], 'cancelled', by_ci=True)

            async def delete(self):
                async with _During(self._svc.reentry, 'batch', 'cancel'):
                    self._svc._call('cancel')
                    if self._rec is not None:
                        self._svc.finish(self._rec['id'], 'cancelled', by_ci=True)
                        self._rec['deleted'] = True

        self.FakeBatch = FakeBatch

    def _call(self, cls):
        """One request of the real BatchClient (after its internal retries); fail-before-effect like the GitHub fake."""
        self.n_calls += 1
        if self.faults is not None:
            self.faults.check('batch', cls)

    def _new_record(self, attributes):
        rec = dict(id=len(self.records) + 1, attributes={k: str(v) for k, v in attributes.items()}, state='running',
                   complete=False, done_t=None, created_t=self._clock(), cancelled_by_ci=False, deleted=False)
        self.records.append(rec)
        return rec

    def finish(self, batch_id, state, by_ci=False):
        rec = self.records[batch_id - 1]
        if rec['complete']:
            return False
        assert state in ('success', 'failure', 'cancelled')
        rec['state'] = state
        rec['complete'] = True
        rec['done_t'] = self._clock()
        rec['cancelled_by_ci'] = by_ci
        return True

    def running(self, kind):
        return [r for r in self.records if not r['complete'] and not r['deleted'] and kind in r['attributes']]

    def match(self, q):
        out = []
        for r in reversed(self.records):      # the service lists newest first
            if r['deleted']:
                continue
            ok = True
            for tok in q.split():
                if tok == '!complete':
                    ok = not r['complete']
                elif tok == 'complete':
                    ok = r['complete']
                elif tok == '!open':
                    ok = True                 # every record here was submitted
                elif tok == 'user:ci':
                    ok = True
                elif '=' in tok:
                    key, v = tok.split('=', 1)
                    ok = r['attributes'].get(key) == v
                else:
                    raise HarnessBug(f'fake batch: query term {tok!r} not implemented')
                if not ok:
                    break
            if ok:
                out.append(r)
        return out

    def client(self):
        return FakeBatchClient(self)


class FakeBatchClient:
    def __init__(self, svc):
        self._svc = svc
        self.queries = []

    def create_batch(self, attributes=None, callback=None, token=None, cancel_after_n_failures=None):
        return self._svc.FakeBatch(self._svc, None, attributes=attributes, callback=callback)

    async def list_batches(self, q=None, last_batch_id=None, limit=2 ** 64, version=None):
        self.queries.append(q)
        async with _During(self._svc.reentry, 'batch', 'list'):
            self._svc._call('list')
            recs = self._svc.match(q or '')               # one page, computed when the request is served
        for r in recs:
            yield self._svc.FakeBatch(self._svc, r)       # a fresh object per listing, as the real client does


# ---------------------------------------------------------------------------------------------------------------------
# db

class FakeDB:
    def __init__(self):
        self.authorized_shas = set()
        self.invalidated_batches = set()

    async def execute_and_fetchone(self, sql, args=None, *a, **k):
        s = ' '.join(sql.split())
        if 'from authorized_shas' in s:
            return {'sha': args} if args in self.authorized_shas else None
        if 'from invalidated_batches' in s:
            return {'batch_id': args} if args in self.invalidated_batches else None
        raise HarnessBug(f'fake db: unexpected query {s!r}')

    def __getattr__(self, name):
        raise HarnessBug(f'fake db: unexpected use of Database.{name}')
